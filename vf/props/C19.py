"""C19 — Bulletproofs++ norm argument is complete and exact; generator lists are reproducible, prefix-consistent and round-trip;
malformed generator encodings are rejected without leaking.

The norm-argument functions are internal (static); they are reached through the flat wrappers of csrc/shim_C19.inc."""
import ctypes
from ctypes import c_size_t, c_void_p, c_int, c_uint64, byref

from hypothesis import strategies as st

from pyref import ec, bppp as B
from pyref.ec import N, P, i2b, b2i
from vf import gens
from vf.core import Test
from vf.lib import buf

RULE = ("cases: (a) honest pipelines commit -> prove -> verify for (|n|,|l|) in {1,2,4,...,64}^2 (16 pairs weighted, all 49 reachable) with scalar vectors "
        "all-zero / all-ones / all n-1 / boundary cycles / sparse / random, transcript prefixes across SHA-256 block boundaries with and without the tagged midstate, "
        "rho from the 256-bit edge set, prover and committer with scratch NULL / large, custom (parsed) generator lists, verifier scratch sizes stepping from 0 through "
        "the required amount to 1 MB; (b) candidate proof strings on such set-ups: library-made, reference-prover-made, synthesized well-formed strings whose commitment "
        "is solved from the specified equation; each with mutations: bit flips, sign byte 4..255, sign bits, infinity encodings with/without sign bit, x >= p / off curve / "
        "other valid x, final scalars >= n (incl. value+n twins) / boundary values, length -+1 / -+65, declared sizes 0 / non-power-of-two / swapped, generator count "
        "mismatch, rho 0 / n / -rho / rho+1, other transcript prefix, other commitment, other c vector, optionally re-solving the commitment so that altered well-formed "
        "strings must be ACCEPTED; (c) every single-bit flip of short proofs (exhaustive per shape); (d) two-point codec over all sign bytes and x classes, challenge "
        "derivation over prefixes and counters; (e) generator lists: create(n) for n in 0..256 against the reference derivation, prefix property, serialize / parse round "
        "trip, malformed strings (length 33k-+1, bad prefix byte, x off curve, x >= p at EVERY position) with allocation balance. "
        "Oracle: pyref.bppp (unrolled final equation, written from the paper's recursion). non-trivial = not (|n| = |l| = 1 and the string is an unmodified honest proof)")
ASSUMPTIONS = ["pyref.bppp / pyref.pedersen / pyref.rfc6979 / pyref.ec are correct readings of the BP++ norm argument and of the generator derivation (validated against the "
               "third-party verification vectors shipped with the module, by prover/verifier completeness inside the reference, and by agreement with honest library proofs)",
               "internal functions are called within their documented / VERIFY_CHECKed preconditions: power-of-two vector lengths, generator count = |n| + |l|, |c| = |l|, "
               "rho != 0 for the prover, proof buffer >= 65*rounds + 64, verifier always given a scratch space object",
               "csrc/shim_C19.inc wrappers only convert representations (32-byte scalars, 33-byte ext points, SHA-256 transcript = optional tag block + prefix)"]

# Sanitizer workers: every pointer this module hands to the library is a vf.lib.buf block, which in sanitizer workers is a libc-malloc block with
# ASan red zones (VF_MALLOC_BUF).  Routing ALL of Python's allocations through the sanitizer allocator as well (PYTHONMALLOC=malloc, the driver's default)
# adds nothing for this module but makes the pure-Python reference (big-integer curve arithmetic) 4x slower (measured: 0.23 -> 0.99 CPU-s per `honest`
# case), so the documented opt-out of vf.main.worker_env is used.  The driver reads it when it spawns workers, i.e. after importing this module.
import os as _os
_os.environ.setdefault("VF_NO_PYMALLOC", "1")

LARGE = 1000000
SIZES = [1, 2, 4, 8, 16, 32, 64]
PAIRS_ALL = [(a, b) for a in SIZES for b in SIZES]
PAIRS_QUICK = [(1, 1), (1, 2), (2, 1), (2, 2), (4, 1), (1, 4), (4, 4), (2, 8), (8, 2), (8, 8), (16, 4), (4, 32), (32, 16), (1, 64), (64, 1), (64, 64)]
PAIRS_SMALL = PAIRS_QUICK[:10]
EDGE = [0, 1, 2, N - 1, N - 2, (N - 1) // 2, (N + 1) // 2, 1 << 128, (1 << 128) - 1, (1 << 255) % N, ec.LAMBDA, N - ec.LAMBDA, (1 << 64) - 1, 3, (1 << 256) % N, P % N]
M256 = (1 << 256) - 1

# a small x whose x + p re-encoding fits in 32 bytes and reduces to a curve point
X_SMALL_ON = next(x for x in range(1, 200) if ec.lift_x(x) is not None)


def H(*parts):
    return b2i(ec.sha256(b"|".join(str(p).encode() for p in parts)))


def offcurve_x(seed):
    x = H("off", seed) % P
    while ec.lift_x(x) is not None:
        x = (x + 1) % P
    return x


def oncurve_x(seed):
    x = H("on", seed) % P
    while ec.lift_x(x) is None:
        x = (x + 1) % P
    return x


def vecb(v):
    return b"".join(i2b(x) for x in v)


def ext(pt):
    return bytes(33) if pt is None else ec.ser33(pt)


def unext(b):
    return None if b == bytes(33) else ec.parse_pubkey(b)


def xbuf(b):
    """exact-size heap copy (ASan sees over-reads)"""
    return buf(max(1, len(b)), b)


# ------------------------------------------------------------------ library access
def D(env):
    d = env.lib.dll
    if not env.cache.get("c19_init"):
        d.vf_c19_scratch_create.restype = c_void_p
        d.vf_c19_gens_n.restype = c_size_t
        d.vf_c19_scratch_checkpoint.restype = c_size_t
        d.vf_c19_scratch_alloc.restype = c_void_p
        d.secp256k1_bppp_generators_create.restype = c_void_p
        d.secp256k1_bppp_generators_parse.restype = c_void_p
        env.cache["c19_init"] = True
    return d


def live(env):
    return D(env).vf_get_alloc_live()


def gens_create(env, n):
    return D(env).secp256k1_bppp_generators_create(env.lib.ctx, c_size_t(n))      # int address or None


def gens_parse(env, b):
    return D(env).secp256k1_bppp_generators_parse(env.lib.ctx, xbuf(b), c_size_t(len(b)))


def gens_destroy(env, g):
    D(env).secp256k1_bppp_generators_destroy(env.lib.ctx, c_void_p(g))


def gens_serialize(env, g, size):
    out = buf(max(1, size), b"\xAA" * size)
    ol = c_size_t(size)
    r = D(env).secp256k1_bppp_generators_serialize(env.lib.ctx, c_void_p(g), out, byref(ol))
    return r, out.raw[:size], ol.value


def scratch_create(env, size):
    s = D(env).vf_c19_scratch_create(env.lib.ctx, c_size_t(size))
    assert s, "scratch allocation failed"
    return c_void_p(s)


def scratch_destroy(env, s):
    D(env).vf_c19_scratch_destroy(env.lib.ctx, s)


def scratch_level(env, s):
    """current allocation level (= what secp256k1_scratch_checkpoint returns)"""
    return D(env).vf_c19_scratch_checkpoint(env.lib.ctx, s)


def scratch_alloc(env, s, size):
    return D(env).vf_c19_scratch_alloc(env.lib.ctx, s, c_size_t(size))         # int address or None


def scratch_rollback(env, s, cp):
    D(env).vf_c19_scratch_apply_checkpoint(env.lib.ctx, s, c_size_t(cp))


def lib_commit(env, scratch, g, nv, lv, cv, mu):
    c33 = buf(33)
    r = D(env).vf_c19_commit(env.lib.ctx, scratch, c33, c_void_p(g), xbuf(vecb(nv)), c_size_t(len(nv)), xbuf(vecb(lv)), c_size_t(len(lv)),
                             xbuf(vecb(cv)), c_size_t(len(cv)), xbuf(i2b(mu)))
    assert r != -2
    return r, c33.raw


def lib_prove(env, scratch, g, prefix, tagged, rho, nv, lv, cv, extra_cap=0):
    rounds = max(B.ilog2(len(nv)), B.ilog2(len(lv)))
    cap = 65 * rounds + 64 + extra_cap
    proof = buf(cap)
    pl = c_size_t(cap)
    r = D(env).vf_c19_prove(env.lib.ctx, scratch, proof, byref(pl), xbuf(prefix), c_size_t(len(prefix)), c_int(1 if tagged else 0), xbuf(i2b(rho)), c_void_p(g),
                            xbuf(vecb(nv)), c_size_t(len(nv)), xbuf(vecb(lv)), c_size_t(len(lv)), xbuf(vecb(cv)), c_size_t(len(cv)))
    assert r != -2
    return r, proof.raw[:min(pl.value, cap)], pl.value


def lib_verify(env, scratch, g, proof, prefix, tagged, rho, g_len, cv, commit33):
    r = D(env).vf_c19_verify(env.lib.ctx, scratch, xbuf(proof), c_size_t(len(proof)), xbuf(prefix), c_size_t(len(prefix)), c_int(1 if tagged else 0),
                             xbuf(i2b(rho)), c_void_p(g), c_size_t(g_len), xbuf(vecb(cv)), c_size_t(len(cv)), xbuf(commit33))
    assert r not in (-1, -2), "wrapper error %d" % r
    return r


# ------------------------------------------------------------------ shared set-up of a norm-argument instance
vec_spec = st.fixed_dictionaries({
    "mode": st.sampled_from(["rand", "rand", "rand", "edge", "edge", "zero", "one", "max", "sparse", "small"]),
    "seed": st.integers(0, (1 << 32) - 1),
    "over": st.one_of(st.just([]), st.just([]), st.lists(st.tuples(st.integers(0, 63), gens.u256_edge.map(lambda v: v % N)).map(list), max_size=2)),
})

rho_st = st.one_of(st.sampled_from([1, 2, N - 1, N - 2, (N - 1) // 2, (N + 1) // 2, ec.LAMBDA]), gens.u256_edge.map(lambda v: v % N or 1),
                   gens.u256_edge.map(lambda v: v % N or 1), st.integers(1, N - 1))
prefix_st = st.one_of(st.sampled_from([0, 0, 1, 31, 32, 55, 56, 63, 64, 65, 119, 120, 128]), st.integers(0, 200)).flatmap(
    lambda n: st.one_of(st.binary(min_size=n, max_size=n), st.sampled_from([b"\x00", b"\xff", b"\x80"]).map(lambda c: c * n))).map(bytes.hex)


def mkvec(spec, n):
    mode, seed = spec["mode"], spec["seed"]
    if mode == "zero":
        v = [0] * n
    elif mode == "one":
        v = [1] * n
    elif mode == "max":
        v = [N - 1] * n
    elif mode == "edge":
        v = [EDGE[(seed + i) % len(EDGE)] for i in range(n)]
    elif mode == "small":
        v = [(seed + 3 * i) % 7 for i in range(n)]
    elif mode == "sparse":
        v = [0] * n
        v[seed % n] = H("sp", seed) % N
    else:
        v = [H("v", seed, i) % N for i in range(n)]
    for pos, val in spec.get("over", []):
        v[pos % n] = val % N
    return v


@st.composite
def setup_case(draw, pairs):
    gl, hl = draw(pairs)
    nspec, lspec = draw(vec_spec), draw(vec_spec)
    # jointly degenerate witnesses: all-zero (commitment and every round point are the point at infinity), n = 0 (proof independent of rho)
    joint = draw(st.sampled_from(["indep"] * 9 + ["all_zero", "all_zero", "n_zero"]))
    if joint != "indep":
        nspec = {"mode": "zero", "seed": nspec["seed"], "over": []}
    if joint == "all_zero":
        lspec = {"mode": "zero", "seed": lspec["seed"], "over": []}
    return {"gl": gl, "hl": hl, "n": nspec, "l": lspec, "c": draw(vec_spec), "rho": draw(rho_st),
            "prefix": draw(prefix_st), "tagged": draw(st.booleans()),
            "gens": draw(st.sampled_from(["std", "std", "std", "rev", "neg"]))}


class Inst:
    """materialized instance: reference values and the library's generator object"""

    def __init__(self, env, case):
        self.env = env
        self.gl, self.hl = case["gl"], case["hl"]
        self.nv, self.lv, self.cv = mkvec(case["n"], self.gl), mkvec(case["l"], self.hl), mkvec(case["c"], self.hl)
        self.rho = case["rho"]
        self.prefix = bytes.fromhex(case["prefix"])
        self.tagged = case["tagged"]
        self.absorbed = B.transcript_prefix(self.prefix, self.tagged)
        self.rounds = max(B.ilog2(self.gl), B.ilog2(self.hl))
        pts = B.generators(self.gl + self.hl)
        self.objs = []
        if case["gens"] == "std":
            self.g = gens_create(env, self.gl + self.hl)
        else:
            if case["gens"] == "rev":
                pts = pts[::-1]
            else:
                pts = [ec.neg(p) if i % 2 == 0 else p for i, p in enumerate(pts)]
            self.g = gens_parse(env, B.serialize_generators(pts))
        env.require(self.g, "generator list constructor returned NULL", mode=case["gens"])
        self.objs.append(self.g)
        self.pts = pts

    def gens_obj(self, pts):
        """library object for an arbitrary list of valid generator points"""
        g = gens_parse(self.env, B.serialize_generators(pts))
        self.env.require(g, "generators_parse rejected a list of valid generator encodings")
        self.objs.append(g)
        return g

    def close(self):
        for g in self.objs:
            gens_destroy(self.env, g)
        self.objs = []


def check_callbacks(env, what):
    env.require(env.lib.illegal() == 0 and env.lib.errors() == 0, "callback fired during %s: %s" % (what, env.lib.cbmsg()))


# ------------------------------------------------------------------ (a) honest pipeline, commitment, scratch stepping
@st.composite
def honest_case(draw):
    case = draw(setup_case(st.one_of(st.sampled_from(PAIRS_QUICK), st.sampled_from(PAIRS_QUICK), st.sampled_from(PAIRS_ALL))))
    case["pscratch"] = draw(st.booleans())
    case["cscratch"] = draw(st.booleans())
    case["extra_cap"] = draw(st.sampled_from([0, 0, 1, 65, 200]))
    case["mu"] = draw(st.one_of(st.none(), st.none(), st.none(), gens.u256_edge.map(lambda v: v % N)))
    # verifier scratch sizes: offsets (in 8-byte units, may be negative) around 32*(rounds + |n| + |l| + log2|n|), absolute small sizes, big sizes
    case["voffs"] = draw(st.lists(st.one_of(st.integers(-6, 6), st.integers(-40, 400), st.sampled_from([-1, 0, 1])), min_size=2, max_size=5))
    case["vabs"] = draw(st.lists(st.one_of(st.integers(0, 200), st.integers(0, 20000), st.integers(0, 300000)), min_size=1, max_size=3))
    # state on entry: the caller already holds this many bytes on the shared scratch space
    case["pre_k"] = draw(st.sampled_from([8, 64, 128, 1000]))
    case["pre_slack"] = draw(st.sampled_from([0, 0, 16, 64, 4096, LARGE]))
    return case


def run_honest(env, case):
    lib = env.lib
    lib.reset()
    live0 = live(env)
    I = Inst(env, case)
    gl, hl = I.gl, I.hl
    classes = ["pair=%d,%d" % (gl, hl), "n:" + case["n"]["mode"], "l:" + case["l"]["mode"], "gens:" + case["gens"],
               "pscratch" if case["pscratch"] else "pscratch_null", "tagged" if case["tagged"] else "untagged"]
    big = scratch_create(env, LARGE)
    try:
        mu = I.rho * I.rho % N if case["mu"] is None else case["mu"]
        r, c33 = lib_commit(env, big if case["cscratch"] else None, I.g, I.nv, I.lv, I.cv, mu)
        env.require(r == 1, "bppp_commit failed", pair=(gl, hl))
        C = B.commit(I.pts, I.nv, I.lv, I.cv, mu)
        env.require(c33 == ext(C), "commitment differs from v*G + <n,G> + <l,H> with the mu-weighted norm", lib=c33.hex(), ref=ext(C).hex(), pair=(gl, hl))
        if C is None:
            classes.append("commit_inf")
        if case["mu"] is not None:
            # commitment with a free mu: only the commitment formula is checked
            classes.append("mu_free")
            check_callbacks(env, "commit")
            return True, classes
        r, proof, plen = lib_prove(env, big if case["pscratch"] else None, I.g, I.prefix, I.tagged, I.rho, I.nv, I.lv, I.cv, case["extra_cap"])
        env.require(r == 1, "norm-argument prover failed", pair=(gl, hl))
        env.require(plen == 65 * I.rounds + 64, "prover reported proof length %d, expected %d" % (plen, 65 * I.rounds + 64))
        v = lib_verify(env, big, I.g, proof, I.prefix, I.tagged, I.rho, gl, I.cv, c33)
        env.require(v == 1, "honest norm-argument proof does not verify against its commitment", pair=(gl, hl), proof=proof.hex()[:400])
        ok, why = B.verify_ex(proof, I.absorbed, I.rho, I.pts, gl, I.cv, C)
        env.require(ok, "the specified final equation does not hold for the library's honest proof (%s)" % why, pair=(gl, hl), proof=proof.hex()[:400])
        if proof[:65 * I.rounds] == bytes(65 * I.rounds) and I.rounds:
            classes.append("all_points_inf")
        # verifier scratch stepping: fail closed, monotone, deterministic, nothing left allocated
        need = 32 * (I.rounds + gl + hl + B.ilog2(gl))
        sizes = sorted(set([max(0, need + 8 * o) for o in case["voffs"]] + case["vabs"] + [LARGE]))
        seen_ok = None
        for sz in sizes:
            s = scratch_create(env, sz)
            v1 = lib_verify(env, s, I.g, proof, I.prefix, I.tagged, I.rho, gl, I.cv, c33)
            v2 = lib_verify(env, s, I.g, proof, I.prefix, I.tagged, I.rho, gl, I.cv, c33)
            scratch_destroy(env, s)          # VERIFY builds: the library asserts here that every checkpoint was applied
            env.require(v1 in (0, 1), "verify returned %d" % v1)
            env.require(v1 == v2, "verify gives %d then %d with the same arguments and scratch space (size %d)" % (v1, v2, sz))
            if v1 == 1:
                seen_ok = sz if seen_ok is None else seen_ok
            else:
                if seen_ok is not None:
                    env.fail("verify fails with scratch size %d although it succeeded with the smaller size %d" % (sz, seen_ok))
            classes.append("scratch_ok" if v1 else "scratch_fail")
        env.require(seen_ok is not None, "honest proof rejected with a %d-byte scratch space" % LARGE)
        # a wrong proof must stay rejected for every scratch size (fail closed is not "accept")
        bad = bytearray(proof)
        bad[-1] ^= 1
        for sz in sizes[:3] + [LARGE]:
            s = scratch_create(env, sz)
            vb = lib_verify(env, s, I.g, bytes(bad), I.prefix, I.tagged, I.rho, gl, I.cv, c33)
            scratch_destroy(env, s)
            env.require(vb == 0, "altered proof accepted (scratch size %d)" % sz)
        # the scratch space is NOT empty on entry: a caller (parent protocol) keeps live data on it and uses it for several calls.
        # Every callee has to hand the space back at the level it found, must not touch the caller's bytes, and must answer as with a fresh space.
        k = case.get("pre_k", 64)
        pattern = bytes((0xA5 ^ (i * 37)) & 255 for i in range(k))
        for total in sorted({LARGE, need + ((k + 15) // 16) * 16 + case.get("pre_slack", 0)}):
            s = scratch_create(env, total)
            cp0 = scratch_level(env, s)
            mine = scratch_alloc(env, s, k)
            env.require(mine, "scratch_alloc(%d) failed on a %d-byte scratch space" % (k, total))
            ctypes.memmove(mine, pattern, k)
            lvl = scratch_level(env, s)
            env.require(lvl >= cp0 + k, "scratch level did not advance after an allocation")

            def after(what):
                now = scratch_level(env, s)
                env.require(now == lvl, "%s left the caller's scratch space at allocation level %d, it was %d on entry (non-empty scratch, %d bytes held by the caller)"
                            % (what, now, lvl, k), scratch_size=total)
                env.require(ctypes.string_at(mine, k) == pattern, "%s overwrote the caller's live allocation on the shared scratch space" % what, scratch_size=total)

            if total == LARGE:
                for rep in (1, 2):
                    r2, c33b = lib_commit(env, s, I.g, I.nv, I.lv, I.cv, mu)
                    after("bppp_commit (call %d)" % rep)
                    env.require(r2 == 1 and c33b == c33, "bppp_commit on a non-empty scratch space differs from the fresh-scratch result (call %d)" % rep)
                    r2, proof2, _ = lib_prove(env, s, I.g, I.prefix, I.tagged, I.rho, I.nv, I.lv, I.cv)
                    after("norm_product_prove (call %d)" % rep)
                    env.require(r2 == 1, "prover fails on a non-empty scratch space (call %d)" % rep)
                    env.require(lib_verify(env, big, I.g, proof2, I.prefix, I.tagged, I.rho, gl, I.cv, c33) == 1,
                                "proof made on a non-empty scratch space does not verify (call %d)" % rep)
            verdicts = []
            for rep in (1, 2, 3):
                verdicts.append(lib_verify(env, s, I.g, proof, I.prefix, I.tagged, I.rho, gl, I.cv, c33))
                after("norm_product_verify (call %d)" % rep)
                vb = lib_verify(env, s, I.g, bytes(bad), I.prefix, I.tagged, I.rho, gl, I.cv, c33)
                after("norm_product_verify of an altered proof (call %d)" % rep)
                env.require(vb == 0, "altered proof accepted on a non-empty scratch space (call %d)" % rep)
            env.require(len(set(verdicts)) == 1, "verify answers %s for the same honest proof on the same non-empty scratch space" % verdicts, scratch_size=total, held=k)
            if total == LARGE:
                env.require(verdicts[0] == 1, "honest proof rejected on a %d-byte scratch space of which the caller holds %d bytes (accepted on a fresh one)" % (total, k))
            scratch_rollback(env, s, cp0)
            scratch_destroy(env, s)
        classes.append("scratch_nonempty_on_entry")
        check_callbacks(env, "honest pipeline")
    finally:
        scratch_destroy(env, big)
        I.close()
    env.require(live(env) == live0, "allocation balance %d after destroying generators and scratch spaces" % (live(env) - live0))
    return not (gl == 1 and hl == 1), classes


# ------------------------------------------------------------------ (b) candidate strings
MUT_KINDS = ["bitflip", "bitflip", "signbyte", "signbits", "inf_sign", "inf_sign", "inf_ok", "x_ge_p", "x_offcurve", "x_valid", "n_ge", "l_ge", "n_set", "l_set",
             "trunc", "extend", "extend", "swap_halves", "g_len", "c_len", "gens_count", "swap_sizes", "rho", "rho", "rho_zero", "prefix", "commit", "cvec", "gens_swap", "nonpow2_attack", "nonpow2_attack"]


@st.composite
def strings_case(draw):
    case = draw(setup_case(st.one_of(st.sampled_from(PAIRS_SMALL), st.sampled_from(PAIRS_SMALL), st.sampled_from(PAIRS_QUICK), st.sampled_from(PAIRS_ALL))))
    case["base"] = draw(st.sampled_from(["lib", "lib", "ref", "solve", "solve"]))
    # synthesized base: per round two x-coordinate recipes, plus the final scalars
    case["synth"] = {"pts": draw(st.lists(st.tuples(st.sampled_from(["k", "k", "x", "inf"]), st.integers(1, 1 << 30)).map(list), min_size=12, max_size=12)),
                     "signs": draw(st.integers(0, 4095)),
                     "n": draw(st.one_of(st.integers(0, 1000), gens.u256_edge.map(lambda v: v % N), st.sampled_from([0, 1, N - 1]))),
                     "l": draw(st.one_of(st.integers(0, 1000), gens.u256_edge.map(lambda v: v % N), st.sampled_from([0, 1, N - 1])))}
    muts = []
    for _ in range(draw(st.integers(1, 6))):
        muts.append({"kind": draw(st.sampled_from(MUT_KINDS)), "a": draw(st.integers(0, 1 << 20)), "b": draw(st.integers(0, 1 << 20)),
                     "resolve": draw(st.sampled_from([False, False, True]))})
    case["muts"] = muts
    return case


def synth_proof(I, sy):
    out = b""
    for j in range(I.rounds):
        xs = []
        sign = (sy["signs"] >> (2 * j)) & 3
        for h in range(2):
            kind, v = sy["pts"][2 * j + h]
            if kind == "inf":
                xs.append(bytes(32))
                sign &= ~(2 >> h)
            elif kind == "k":
                xs.append(i2b(ec.mulg(v)[0]))
            else:
                xs.append(i2b(oncurve_x(v)))
        out += bytes([sign]) + xs[0] + xs[1]
    return out + i2b(sy["n"]) + i2b(sy["l"])


def set_x(p, j, half, xb):
    p[65 * j + 1 + 32 * half:65 * j + 33 + 32 * half] = xb


def fit_rounds(proof, old_rounds, new_rounds):
    """re-shape a proof string to another number of rounds, keeping the final scalars"""
    body, tail = proof[:65 * old_rounds], proof[65 * old_rounds:]
    if new_rounds <= old_rounds:
        body = body[:65 * new_rounds]
    else:
        filler = body[:65] if body else (b"\x00" + i2b(ec.G[0]) + i2b(ec.mulg(2)[0]))
        body = body + filler * (new_rounds - old_rounds)
    return body + tail


def apply_mut(I, inp, m):
    """inp: dict(proof, rho, prefix, tagged, g_len, cv, pts, C) -> mutated copy, extra classes"""
    k, a, b = m["kind"], m["a"], m["b"]
    o = dict(inp)
    p = bytearray(inp["proof"])
    rounds = (len(p) - 64) // 65 if len(p) >= 64 else 0
    cls = []
    if k == "bitflip" and len(p):
        pos = a % (8 * len(p))
        p[pos // 8] ^= 1 << (pos % 8)
    elif k == "signbyte" and rounds:
        p[65 * (a % rounds)] = 4 + b % 252
    elif k == "signbits" and rounds:
        p[65 * (a % rounds)] ^= 1 + b % 3
    elif k in ("inf_sign", "inf_ok") and rounds:
        j, half = a % rounds, b % 2
        set_x(p, j, half, bytes(32))
        bit = 2 >> half
        if k == "inf_sign":
            p[65 * j] |= bit
            if (b >> 1) % 2:
                p[65 * j] &= 3
        else:
            p[65 * j] &= ~bit & 0xFF
    elif k == "x_ge_p" and rounds:
        set_x(p, a % rounds, b % 2, i2b([P, P + X_SMALL_ON, M256, P + 1][(b >> 1) % 4]))
    elif k == "x_offcurve" and rounds:
        set_x(p, a % rounds, b % 2, i2b(offcurve_x(b)))
    elif k == "x_valid" and rounds:
        set_x(p, a % rounds, b % 2, i2b(ec.mulg(b + 1)[0]))
    elif k in ("n_ge", "l_ge", "n_set", "l_set") and len(p) >= 64:
        off = len(p) - 64 + (32 if k[0] == "l" else 0)
        old = b2i(bytes(p[off:off + 32]))
        if k.endswith("_ge"):
            if old + N <= M256:
                new = old + N
                cls.append("s_plus_n_twin")
            else:
                new = [N, N + 1, M256, N + (b % 1000)][a % 4]
        else:
            new = [0, 1, N - 1, b % 1000, (old + 1) % N][a % 5]
        p[off:off + 32] = i2b(new)
    elif k == "trunc" and len(p):
        cut = [1, 65, 64, 32, 1 + b % len(p)][a % 5]
        del p[max(0, len(p) - cut):]
    elif k == "extend":
        add = [1, 65, 32, 64, 1 + b % 70][a % 5]
        p += (bytes(add) if b % 2 else bytes(p[-add:]).rjust(add, b"\x01"))
    elif k == "swap_halves" and rounds:
        j = a % rounds
        xb, rb = bytes(p[65 * j + 1:65 * j + 33]), bytes(p[65 * j + 33:65 * j + 65])
        set_x(p, j, 0, rb)
        set_x(p, j, 1, xb)
    elif k in ("g_len", "c_len"):
        gl, hl = inp["g_len"], len(inp["cv"])
        cur = gl if k == "g_len" else hl
        new = [0, 3, 5, 6, 7, 12, cur * 2, cur // 2, cur + 1, 96, 65][a % 11]
        match = b % 3            # 0: keep everything else; 1: make generator count and proof length consistent with the declared sizes; 2: only the generator count
        if k == "g_len":
            gl = new
        else:
            hl = new
            o["cv"] = (list(inp["cv"]) + [1 + i for i in range(new)])[:new]
        o["g_len"] = gl
        if match and gl + hl <= 200:
            cnt = len(inp["pts"])
            o["pts"] = (list(inp["pts"]) + B.generators(cnt + gl + hl)[cnt:])[:gl + hl]
            if match == 1 and gl and hl:
                p = bytearray(fit_rounds(bytes(p), rounds, max(B.ilog2(gl), B.ilog2(hl))))
        cls.append("declared_pow2" if (B.is_pow2(gl) and B.is_pow2(hl)) else "declared_bad")
    elif k == "gens_count":
        cnt = len(inp["pts"])
        new = max(0, [cnt - 1, cnt + 1, 1, 2 * cnt, cnt + 2, cnt // 2][a % 6])
        o["pts"] = (list(inp["pts"]) + B.generators(new + cnt)[cnt:])[:new]
    elif k == "nonpow2_attack":
        # declared |c| not a power of two (3, 5, 6, 7, ...) with everything else consistent, and the commitment solved for the reading
        # "missing generators are infinity": the specified verdict is REJECT (non-power-of-two), a verifier without that check accepts
        gl, hl = inp["g_len"], len(inp["cv"])
        cand = [h for h in (3, 5, 6, 7, 9, 12, 15, 24, 33, 48, 63) if (1 << h.bit_length()) <= gl]
        if cand and B.is_pow2(gl) and len(inp["pts"]) == gl + hl:
            nh = cand[a % len(cand)]
            o["cv"] = (list(inp["cv"]) + [1 + (b + i) % 5 for i in range(nh)])[:nh]
            H_ = list(inp["pts"][gl:])
            H_ = (H_ + [g for g in B.generators(gl + hl + nh) if g not in inp["pts"]])[:nh]
            o["pts"] = list(inp["pts"][:gl]) + H_
            p = bytearray(fit_rounds(bytes(p), rounds, B.ilog2(gl)))
            try:
                o["C"] = B.solve_commitment(bytes(p), B.transcript_prefix(inp["prefix"], inp["tagged"]), inp["rho"], o["pts"], gl, o["cv"], pad_l=True)
                cls.append("nonpow2_attack_built")
            except ValueError:
                pass
    elif k == "swap_sizes":
        gl, hl = inp["g_len"], len(inp["cv"])
        o["g_len"] = hl
        o["cv"] = (list(inp["cv"]) + [1 + i for i in range(gl)])[:gl]
    elif k == "rho":
        r = inp["rho"]
        o["rho"] = [(r + 1) % N, (N - r) % N, r + N if r + N <= M256 else r, (r * r) % N, (2 * r) % N][a % 5]
    elif k == "rho_zero":
        o["rho"] = [0, N, 0][a % 3]
    elif k == "prefix":
        pre = inp["prefix"]
        c = a % 4
        if c == 0:
            o["prefix"] = pre + bytes([b & 255])
        elif c == 1 and pre:
            o["prefix"] = pre[:-1]
        elif c == 2:
            o["tagged"] = not inp["tagged"]
        else:
            o["prefix"] = bytes([b & 255]) + pre
    elif k == "commit":
        C = inp["C"]
        o["C"] = [ec.add(C, ec.G), ec.neg(C) if C else ec.G, None if C else ec.mulg(b + 2), ec.mulg(b + 1)][a % 4]
    elif k == "cvec" and inp["cv"]:
        cv = list(inp["cv"])
        cv[a % len(cv)] = (cv[a % len(cv)] + 1 + b % 3) % N
        o["cv"] = cv
    elif k == "gens_swap" and len(inp["pts"]) >= 2:
        pts = list(inp["pts"])
        i, j = a % len(pts), b % len(pts)
        pts[i], pts[j] = pts[j], pts[i]
        o["pts"] = pts
    o["proof"] = bytes(p)
    return o, cls


def run_strings(env, case):
    lib = env.lib
    lib.reset()
    live0 = live(env)
    I = Inst(env, case)
    gl, hl = I.gl, I.hl
    base = case["base"]
    if base == "ref" and gl * hl > 16:
        base = "lib"
    classes = ["base:" + base, "pair=%d,%d" % (gl, hl)]
    big = scratch_create(env, LARGE)
    obj_cache = {}

    def obj_for(pts):
        if pts is I.pts or pts == I.pts:
            return I.g
        key = B.serialize_generators(pts)
        if key not in obj_cache:
            obj_cache[key] = I.gens_obj(pts)
        return obj_cache[key]

    def evaluate(inp, label):
        absorbed = B.transcript_prefix(inp["prefix"], inp["tagged"])
        exp, why = B.verify_ex(inp["proof"], absorbed, inp["rho"], inp["pts"], inp["g_len"], inp["cv"], inp["C"])
        got = lib_verify(env, big, obj_for(inp["pts"]), inp["proof"], inp["prefix"], inp["tagged"], inp["rho"], inp["g_len"], inp["cv"], ext(inp["C"]))
        env.require(got in (0, 1), "verify returned %d" % got)
        env.require(got == (1 if exp else 0),
                    "norm_product_verify returned %d, the specification says %d (%s) [%s]" % (got, 1 if exp else 0, why, label),
                    proof=inp["proof"].hex()[:600], rho=i2b(inp["rho"]).hex(), g_len=inp["g_len"], c_len=len(inp["cv"]), n_gens=len(inp["pts"]),
                    commit=ext(inp["C"]).hex())
        return exp, why

    try:
        if base == "lib":
            r, c33 = lib_commit(env, None, I.g, I.nv, I.lv, I.cv, I.rho * I.rho % N)
            env.require(r == 1, "bppp_commit failed")
            r, proof, _ = lib_prove(env, None, I.g, I.prefix, I.tagged, I.rho, I.nv, I.lv, I.cv)
            env.require(r == 1, "norm-argument prover failed")
            C = unext(c33)
        elif base == "ref":
            C = B.commit(I.pts, I.nv, I.lv, I.cv, I.rho * I.rho % N)
            proof = B.prove(I.absorbed, I.rho, I.pts, I.nv, I.lv, I.cv)
        else:
            proof = synth_proof(I, case["synth"])
            C = B.solve_commitment(proof, I.absorbed, I.rho, I.pts, gl, I.cv)
        inp0 = {"proof": proof, "rho": I.rho, "prefix": I.prefix, "tagged": I.tagged, "g_len": gl, "cv": list(I.cv), "pts": I.pts, "C": C}
        exp, why = evaluate(inp0, "unmodified " + base)
        env.require(exp, "reference rejects an unmodified %s proof (%s): reference and library disagree on the specified equation" % (base, why))
        classes.append("accept_base")
        zero_n = all(x == 0 for x in I.nv)
        all_inf = I.rounds > 0 and proof[:65 * I.rounds] == bytes(65 * I.rounds)
        # on every base: a zero challenge base is refused (for n = 0 witnesses the proof does not depend on rho, so only the explicit check stands in the way) ...
        muts = [{"kind": "rho_zero", "a": 0, "b": 0, "resolve": False}, {"kind": "rho_zero", "a": 1, "b": 0, "resolve": False}]
        # ... and when every round point is infinity, so is a set sign bit on either half of the first round (the equation would still hold)
        if all_inf:
            muts += [{"kind": "inf_sign", "a": 0, "b": 0, "resolve": False}, {"kind": "inf_sign", "a": 0, "b": 1, "resolve": False}]
        for m in muts + case["muts"]:
            inp, cls = apply_mut(I, inp0, m)
            classes += cls
            classes.append("mut:" + m["kind"])
            resolved = False
            if m["resolve"] and m["kind"] != "nonpow2_attack":
                try:
                    inp["C"] = B.solve_commitment(inp["proof"], B.transcript_prefix(inp["prefix"], inp["tagged"]), inp["rho"], inp["pts"], inp["g_len"], inp["cv"])
                    resolved = True
                except ValueError:
                    pass
            exp, why = evaluate(inp, m["kind"] + ("+resolve" if resolved else ""))
            if resolved:
                env.require(exp, "reference inconsistent: solved commitment does not verify")
                classes.append("accept_resolved")
                classes.append("accept_resolved:" + m["kind"])
            else:
                classes.append("accept_mutated" if exp else "reject:" + why)
            if m["kind"] == "rho_zero" and zero_n:
                classes.append("rho_zero_on_zero_n")
            if m["kind"] == "inf_sign" and all_inf:
                classes.append("inf_sign_on_all_inf")
        check_callbacks(env, "verification of candidate strings")
    finally:
        scratch_destroy(env, big)
        I.close()
    env.require(live(env) == live0, "allocation balance %d after destroying generators and scratch spaces" % (live(env) - live0))
    return True, classes


# ------------------------------------------------------------------ (c) every single-bit flip of short proofs
FLIP_SHAPES = {"quick": [(1, 1), (2, 1), (1, 2), (2, 2)],
               "thorough": [(1, 1), (2, 1), (1, 2), (2, 2), (4, 1), (1, 4), (4, 4), (2, 4), (4, 2), (8, 8)]}
FLIP_CHUNK = 16


def flips_enum(tier, shard, nshards):
    k = 0
    for rep in range(1 if tier == "quick" else 3):
        for gl, hl in FLIP_SHAPES[tier]:
            plen = 65 * max(B.ilog2(gl), B.ilog2(hl)) + 64
            for chunk in range((plen + FLIP_CHUNK - 1) // FLIP_CHUNK):
                if k % nshards == shard:
                    yield {"gl": gl, "hl": hl, "seed": 1000 * rep + 7 * gl + hl, "chunk": chunk, "mode": ["rand", "edge", "small"][rep % 3]}
                k += 1


def run_flips(env, case):
    lib = env.lib
    lib.reset()
    gl, hl, seed = case["gl"], case["hl"], case["seed"]
    sc = {"gl": gl, "hl": hl, "n": {"mode": case["mode"], "seed": seed, "over": []}, "l": {"mode": case["mode"], "seed": seed + 1, "over": []},
          "c": {"mode": "rand", "seed": seed + 2, "over": []}, "rho": H("rho", seed) % (N - 1) + 1, "prefix": ec.sha256(b"flip%d" % seed)[:seed % 33].hex(),
          "tagged": bool(seed & 1), "gens": "std"}
    live0 = live(env)
    I = Inst(env, sc)
    big = scratch_create(env, LARGE)
    try:
        r, c33 = lib_commit(env, None, I.g, I.nv, I.lv, I.cv, I.rho * I.rho % N)
        env.require(r == 1, "bppp_commit failed")
        r, proof, _ = lib_prove(env, big, I.g, I.prefix, I.tagged, I.rho, I.nv, I.lv, I.cv)
        env.require(r == 1, "norm-argument prover failed")
        C = unext(c33)
        env.require(lib_verify(env, big, I.g, proof, I.prefix, I.tagged, I.rho, gl, I.cv, c33) == 1, "honest proof does not verify")
        env.require(B.verify(proof, I.absorbed, I.rho, I.pts, gl, I.cv, C), "reference rejects the library's honest proof")
        nrej = 0
        lo = case["chunk"] * FLIP_CHUNK
        for pos in range(8 * lo, 8 * min(len(proof), lo + FLIP_CHUNK)):
            p = bytearray(proof)
            p[pos // 8] ^= 1 << (pos % 8)
            p = bytes(p)
            exp, why = B.verify_ex(p, I.absorbed, I.rho, I.pts, gl, I.cv, C)
            got = lib_verify(env, big, I.g, p, I.prefix, I.tagged, I.rho, gl, I.cv, c33)
            env.require(got == (1 if exp else 0), "bit %d of the proof flipped: verify returned %d, the specification says %d (%s)" % (pos, got, 1 if exp else 0, why),
                        proof=p.hex())
            env.require(got == 0, "proof with bit %d flipped is accepted" % pos, proof=p.hex())
            nrej += 1
        check_callbacks(env, "bit-flip verification")
    finally:
        scratch_destroy(env, big)
        I.close()
    env.require(live(env) == live0, "allocation balance not zero")
    return True, ["shape=%d,%d" % (gl, hl), "flips_rejected"]


# ------------------------------------------------------------------ (c') exhaustive verifier scratch-size sweep for small shapes
SWEEP_SHAPES = {"quick": [(1, 1), (2, 1), (1, 2), (2, 2)],
                "thorough": [(1, 1), (2, 1), (1, 2), (2, 2), (4, 1), (1, 4), (4, 4), (8, 8), (1, 16), (16, 1)]}
SWEEP_ABOVE = 4096


def sweep_enum(tier, shard, nshards):
    k = 0
    for rep in range(1 if tier == "quick" else 2):
        for gl, hl in SWEEP_SHAPES[tier]:
            if k % nshards == shard:
                yield {"gl": gl, "hl": hl, "seed": 500 * rep + 11 * gl + hl, "above": SWEEP_ABOVE}
            k += 1


def run_sweep(env, case):
    """EVERY scratch size (step 1 byte) from 0 to the required amount + 4096: below the first sufficient size the verifier fails closed,
    from the first sufficient size on it accepts the honest proof at every size (no 'holes' between two working sizes)."""
    lib = env.lib
    lib.reset()
    gl, hl, seed = case["gl"], case["hl"], case["seed"]
    sc = {"gl": gl, "hl": hl, "n": {"mode": "rand", "seed": seed, "over": []}, "l": {"mode": "rand", "seed": seed + 1, "over": []},
          "c": {"mode": "rand", "seed": seed + 2, "over": []}, "rho": H("rho", seed) % (N - 1) + 1, "prefix": ec.sha256(b"sweep%d" % seed)[:seed % 33].hex(),
          "tagged": bool(seed & 1), "gens": "std"}
    live0 = live(env)
    I = Inst(env, sc)
    big = scratch_create(env, LARGE)
    try:
        r, c33 = lib_commit(env, None, I.g, I.nv, I.lv, I.cv, I.rho * I.rho % N)
        env.require(r == 1, "bppp_commit failed")
        r, proof, _ = lib_prove(env, None, I.g, I.prefix, I.tagged, I.rho, I.nv, I.lv, I.cv)
        env.require(r == 1, "norm-argument prover failed")
        env.require(lib_verify(env, big, I.g, proof, I.prefix, I.tagged, I.rho, gl, I.cv, c33) == 1, "honest proof does not verify")
        env.require(B.verify(proof, I.absorbed, I.rho, I.pts, gl, I.cv, unext(c33)), "reference rejects the library's honest proof")
        bad = bytearray(proof)
        bad[-1] ^= 1
        bad = bytes(bad)
        # keep the argument buffers alive across the sweep (one conversion instead of one per size)
        d = D(env)
        a_proof, a_bad, a_pre, a_cv = xbuf(proof), xbuf(bad), xbuf(I.prefix), xbuf(vecb(I.cv))
        rho32, tg, a_c33 = xbuf(i2b(I.rho)), c_int(1 if I.tagged else 0), xbuf(c33)

        def ver(s, pb):
            return d.vf_c19_verify(env.lib.ctx, s, pb, c_size_t(len(proof)), a_pre, c_size_t(len(I.prefix)), tg, rho32, c_void_p(I.g), c_size_t(gl),
                                   a_cv, c_size_t(hl), a_c33)
        need = 32 * (I.rounds + gl + hl + B.ilog2(gl))
        first_ok = None
        top = need + case["above"]
        for sz in range(0, top + 1):
            s = scratch_create(env, sz)
            v = ver(s, a_proof)
            vb = ver(s, a_bad) if sz % 16 == 0 else 0
            scratch_destroy(env, s)
            env.require(v in (0, 1), "verify returned %d (scratch size %d)" % (v, sz))
            env.require(vb == 0, "altered proof accepted (scratch size %d)" % sz)
            if v == 1:
                first_ok = sz if first_ok is None else first_ok
            elif first_ok is not None:
                env.fail("verify rejects the honest proof with a %d-byte scratch space although it accepts it with the smaller size %d "
                         "(and with %d bytes): a sufficient scratch size must stay sufficient" % (sz, first_ok, LARGE), shape=(gl, hl))
        env.require(first_ok is not None, "honest proof never accepted with scratch sizes 0..%d (accepted with %d)" % (top, LARGE))
        check_callbacks(env, "scratch sweep")
    finally:
        scratch_destroy(env, big)
        I.close()
    env.require(live(env) == live0, "allocation balance not zero")
    return True, ["shape=%d,%d" % (gl, hl), "scratch_sweep_complete", "first_ok=need" if first_ok == need else "first_ok!=need"]


# ------------------------------------------------------------------ (d) codec and challenge derivation
half_st = st.tuples(st.sampled_from(["zero", "k", "k", "x", "off", "ge_p", "p_plus_on", "edge", "rand"]), st.integers(0, 1 << 30)).map(list)


@st.composite
def codec_case(draw):
    return {"sign": draw(st.one_of(st.integers(0, 3), st.integers(0, 7), st.integers(0, 255), st.sampled_from([4, 128, 255, 252, 253]))),
            "x": draw(half_st), "r": draw(half_st)}


def mk_half(spec):
    kind, v = spec
    if kind == "zero":
        return bytes(32)
    if kind == "k":
        return i2b(ec.mulg(v + 1)[0])
    if kind == "x":
        return i2b(oncurve_x(v))
    if kind == "off":
        return i2b(offcurve_x(v))
    if kind == "ge_p":
        return i2b([P, P + 1, M256, P + 7][v % 4])
    if kind == "p_plus_on":
        return i2b(P + X_SMALL_ON)
    if kind == "edge":
        return i2b(gens.NAMED[v % len(gens.NAMED)])
    return ec.sha256(b"half%d" % v)


def run_codec(env, case):
    d = D(env)
    b65 = bytes([case["sign"]]) + mk_half(case["x"]) + mk_half(case["r"])
    x33, r33 = buf(33), buf(33)
    bits = d.vf_c19_parse_points(xbuf(b65), x33, r33)
    (okx, X), (okr, R) = B.parse_points(b65)
    classes = ["sign>3" if case["sign"] > 3 else "sign<=3", "x:" + case["x"][0], "r:" + case["r"][0]]
    env.require(bool(bits & 1) == okx, "first point of the 65-byte encoding: library %s, specification %s" % ("parses" if bits & 1 else "rejects", "valid" if okx else "invalid"),
                enc=b65.hex())
    env.require(bool(bits & 2) == okr, "second point of the 65-byte encoding: library %s, specification %s" % ("parses" if bits & 2 else "rejects", "valid" if okr else "invalid"),
                enc=b65.hex())
    if okx:
        env.require(x33.raw == ext(X), "first point decoded differently", enc=b65.hex(), lib=x33.raw.hex())
    if okr:
        env.require(r33.raw == ext(R), "second point decoded differently", enc=b65.hex(), lib=r33.raw.hex())
    for nm, ok, spec, sgn in (("x", okx, case["x"], case["sign"] & 2), ("r", okr, case["r"], case["sign"] & 1)):
        if spec[0] == "zero" and case["sign"] <= 3:
            classes.append("inf_sign_set" if sgn else "inf_ok")
    if okx and okr:
        out = buf(65)
        env.require(d.vf_c19_serialize_points(x33, r33, out) == 1, "wrapper could not re-parse decoded points")
        env.require(out.raw == b65, "serialize(parse(b)) != b for a valid 65-byte encoding", enc=b65.hex(), again=out.raw.hex())
        env.require(B.serialize_points(X, R) == b65, "reference codec does not round-trip (reference bug)")
        classes.append("both_valid")
    else:
        classes.append("some_invalid")
    return True, classes


@st.composite
def challenge_case(draw):
    return {"prefix": draw(prefix_st), "tagged": draw(st.booleans()), "idx": draw(gens.u64_edge)}


def run_challenge(env, case):
    pre = bytes.fromhex(case["prefix"])
    out = buf(32)
    D(env).vf_c19_challenge(env.lib.ctx, xbuf(pre), c_size_t(len(pre)), c_int(1 if case["tagged"] else 0), c_uint64(case["idx"]), out)
    ref = B.challenge(B.transcript_prefix(pre, case["tagged"]), case["idx"])
    env.require(out.raw == i2b(ref), "challenge scalar differs from SHA256(transcript || le64(idx)) mod n", lib=out.raw.hex(), ref=i2b(ref).hex())
    return True, ["tagged" if case["tagged"] else "plain", "idx0" if case["idx"] == 0 else "idx>0"]


# ------------------------------------------------------------------ (e) generator lists
@st.composite
def gens_case(draw):
    n = draw(st.one_of(st.integers(0, 256), st.integers(0, 12), st.sampled_from([0, 1, 2, 255, 256, 128, 127, 129, 16, 24]), st.sampled_from([0, 1, 256, 256])))
    return {"n": n, "k": draw(st.one_of(st.integers(0, 3), st.integers(0, 40), st.just(1))), "extra": draw(st.sampled_from([0, 1, 7, 33, 100]))}


def run_gens(env, case):
    lib = env.lib
    lib.reset()
    n, k = case["n"], case["k"]
    live0 = live(env)
    ref = B.serialize_generators(B.generators(n))
    g = gens_create(env, n)
    env.require(g, "generators_create(%d) returned NULL" % n)
    objs = [g]
    try:
        env.require(D(env).vf_c19_gens_n(c_void_p(g)) == n, "generator list has the wrong length")
        r, ser, ol = gens_serialize(env, g, 33 * n)
        env.require(r == 1 and ol == 33 * n, "generators_serialize failed with an exact-size buffer", r=r, outlen=ol)
        env.require(ser == ref, "generators_create(%d) differs from the specified derivation (HMAC-DRBG keyed with G.x||G.y, i-th output seeds the i-th generator)" % n,
                    first_diff=next((i // 33 for i in range(len(ref)) if ser[i] != ref[i]), None))
        r, ser_big, ol = gens_serialize(env, g, 33 * n + case["extra"])
        env.require(r == 1 and ol == 33 * n and ser_big[:33 * n] == ref, "generators_serialize into a larger buffer wrong", r=r, outlen=ol)
        check_callbacks(env, "create/serialize")
        if n:
            r, _, _ = gens_serialize(env, g, 33 * n - 1)
            env.require(r == 0, "generators_serialize succeeded into a buffer one byte too small")
            lib.reset()
        g2 = gens_create(env, n + k)
        env.require(g2, "generators_create returned NULL")
        objs.append(g2)
        r, ser2, _ = gens_serialize(env, g2, 33 * (n + k))
        env.require(r == 1 and ser2[:33 * n] == ser, "create(%d) is not a prefix of create(%d)" % (n, n + k))
        env.require(ser2 == B.serialize_generators(B.generators(n + k)), "generators_create(%d) differs from the specified derivation" % (n + k))
        g3 = gens_create(env, n)
        env.require(g3, "generators_create returned NULL")
        objs.append(g3)
        env.require(gens_serialize(env, g3, 33 * n)[1] == ser, "generators_create(%d) is not deterministic" % n)
        gp = gens_parse(env, ser)
        env.require(gp, "generators_parse rejected the serialization of create(%d)" % n)
        objs.append(gp)
        env.require(D(env).vf_c19_gens_n(c_void_p(gp)) == n, "parsed generator list has the wrong length")
        r, ser3, ol = gens_serialize(env, gp, 33 * n)
        env.require(r == 1 and ser3 == ser, "serialize(parse(serialize(g))) != serialize(g)")
        gens_destroy(env, None)
        check_callbacks(env, "generator list operations")
    finally:
        for o in objs:
            gens_destroy(env, o)
    env.require(live(env) == live0, "allocation balance %d after destroying all generator lists" % (live(env) - live0))
    return True, ["n=%s" % (n if n in (0, 1, 2, 255, 256) else "mid"), "k=0" if k == 0 else "k>0"]


GP_KINDS = ["good", "prefix", "prefix", "prefix_flip", "offcurve", "x_ge_p", "zero_chunk", "ff_chunk", "x_zero", "trunc1", "ext1", "trunc_k", "ext_k", "drop33", "add33"]


@st.composite
def gparse_case(draw):
    k = draw(st.one_of(st.integers(0, 24), st.integers(1, 8), st.sampled_from([1, 2, 32, 33, 64, 255, 256]), st.integers(0, 256)))
    return {"k": k, "kind": draw(st.sampled_from(GP_KINDS)), "val": draw(st.integers(0, 255)), "seed": draw(st.integers(0, 1 << 30)),
            "order": draw(st.sampled_from(["std", "std", "rev", "neg"])), "pos": draw(st.integers(0, 255))}


def bad_chunk(chunk, kind, val, seed):
    c = bytearray(chunk)
    if kind == "prefix":
        c[0] = val if val not in (10, 11) else val - 8
    elif kind == "prefix_flip":
        c[0] ^= 1
    elif kind == "offcurve":
        c[1:] = i2b(offcurve_x(seed))
    elif kind == "x_ge_p":
        c[1:] = i2b([P, P + X_SMALL_ON, M256, P + 1][seed % 4])
    elif kind == "zero_chunk":
        c = bytearray(33)
    elif kind == "ff_chunk":
        c = bytearray(b"\xff" * 33)
    elif kind == "x_zero":
        c[1:] = bytes(32)
    return bytes(c)


def run_gparse(env, case):
    lib = env.lib
    lib.reset()
    k, kind = case["k"], case["kind"]
    pts = B.generators(k)
    if case["order"] == "rev":
        pts = pts[::-1]
    elif case["order"] == "neg":
        pts = [ec.neg(p) if i % 2 else p for i, p in enumerate(pts)]
    base = B.serialize_generators(pts)
    strings = []
    if kind in ("good",):
        strings.append(base)
    elif kind == "trunc1":
        strings.append(base[:-1])
    elif kind == "ext1":
        strings.append(base + bytes([case["val"]]))
    elif kind == "trunc_k":
        strings.append(base[:max(0, len(base) - 1 - case["val"] % 33)])
    elif kind == "ext_k":
        strings.append(base + base[:33][:1 + case["val"] % 32] if base else bytes(1 + case["val"] % 32))
    elif kind == "drop33":
        strings.append(base[:-33])
    elif kind == "add33":
        strings.append(base + B.serialize_generators(B.generators(k + 1)[k:]))
    elif k:
        # a bad 33-byte group at EVERY position for short lists, at boundary / sampled positions for long ones
        positions = range(k) if k <= 40 else sorted({0, 1, k - 1, k - 2, k // 2, case["pos"] % k, (case["pos"] * 7) % k})
        for j in positions:
            strings.append(base[:33 * j] + bad_chunk(base[33 * j:33 * j + 33], kind, case["val"], case["seed"] + j) + base[33 * j + 33:])
            # ... also followed / preceded by a length defect
        strings.append(strings[0] + b"\x0a")
    else:
        strings.append(base)
    classes = ["kind:" + kind]
    live0 = live(env)
    for s in strings:
        exp = B.parse_generators(s)
        g = gens_parse(env, s)
        bal = live(env) - live0
        if g:
            r, ser, ol = gens_serialize(env, g, len(s))
            cnt = D(env).vf_c19_gens_n(c_void_p(g))
            gens_destroy(env, g)
            env.require(exp is not None, "generators_parse accepted a malformed string (len %d)" % len(s), data=s.hex()[:800])
            env.require(cnt == len(s) // 33 and r == 1 and ol == len(s) and ser == s, "serialize(parse(b)) != b", data=s.hex()[:800])
            classes.append("accept")
        else:
            env.require(exp is None, "generators_parse rejected a well-formed string (len %d)" % len(s), data=s.hex()[:800])
            env.require(bal == 0, "generators_parse returned NULL but left %d allocation(s) live (len %d)" % (bal, len(s)), data=s.hex()[:800])
            classes.append("reject")
            classes.append("reject_len" if len(s) % 33 else "reject_point")
        env.require(live(env) == live0, "allocation balance %d after parse/destroy" % (live(env) - live0))
    check_callbacks(env, "generators_parse")
    if len(strings) > 2:
        classes.append("every_position")
    return True, classes


_Q = {"quick": ["prod", "vsan"], "thorough": ["prod", "vsan"]}
TESTS = [
    Test("honest", honest_case, run_honest, quick=420, thorough=9000, cfgs=_Q,
         must_cover=["pair=%d,%d" % p for p in PAIRS_QUICK] + ["scratch_ok", "scratch_fail", "pscratch", "pscratch_null", "n:zero", "n:edge", "commit_inf", "all_points_inf",
                                                                "mu_free", "tagged", "untagged", "gens:rev", "scratch_nonempty_on_entry"], max_workers=8),
    Test("strings", strings_case, run_strings, quick=900, thorough=30000, cfgs=_Q,
         must_cover=["base:lib", "base:ref", "base:solve", "accept_base", "accept_resolved", "accept_mutated", "reject:length", "reject:not_pow2", "reject:gen_count",
                     "reject:rho_zero", "reject:scalar_range", "reject:point", "reject:equation", "reject:zero_len", "s_plus_n_twin", "rho_zero_on_zero_n",
                     "inf_sign_on_all_inf", "declared_bad", "declared_pow2", "nonpow2_attack_built"] + ["mut:" + k for k in sorted(set(MUT_KINDS))], max_workers=12),
    Test("flips", flips_enum, run_flips, kind="enum", cfgs=_Q, must_cover=["flips_rejected"], max_workers=6),
    Test("sweep", sweep_enum, run_sweep, kind="enum", cfgs={"quick": ["prod"], "thorough": ["prod", "vsan"]}, must_cover=["scratch_sweep_complete"], max_workers=2),
    Test("codec", codec_case, run_codec, quick=4000, thorough=60000, cfgs=_Q, must_cover=["sign>3", "inf_sign_set", "inf_ok", "both_valid", "some_invalid", "x:ge_p", "x:off",
                                                                                           "x:p_plus_on"], max_workers=2),
    Test("challenge", challenge_case, run_challenge, quick=1500, thorough=20000, cfgs=_Q, must_cover=["tagged", "plain", "idx0", "idx>0"], max_workers=1),
    Test("gens", gens_case, run_gens, quick=260, thorough=4000, cfgs=_Q, must_cover=["n=0", "n=1", "n=256", "k>0"], max_workers=2),
    Test("gens_parse", gparse_case, run_gparse, quick=700, thorough=12000, cfgs=_Q,
         must_cover=["accept", "reject_len", "reject_point", "every_position"] + ["kind:" + k for k in sorted(set(GP_KINDS))], max_workers=2),
]
