"""C02 — BIP-340 Schnorr signing and verification are exact."""
import ctypes
import hashlib
from ctypes import c_size_t, c_void_p, c_ubyte, c_int, byref

from hypothesis import strategies as st

from pyref import ec, bip340
from vf import gens
from vf.core import Test
from vf.lib import buf, NONCEFN_HARDENED

RULE = ("cases: (a) signing: valid secret keys of both public-key parities (edge-biased), messages of every length 0..300 (exhaustive enumeration) and sampled up to 10^5 bytes, "
        "aux absent / zero / random, entry points sign32, deprecated sign, sign_custom with extraparams NULL, noncefp NULL, the exported bip340 nonce function, with and without ndata, "
        "and a scripted Python nonce function; oracle: byte equality with pyref.bip340.sign, output verifies; "
        "(b) verification of (sig, msg, x-only key) triples: honest, single-bit flips of sig / message / key, r >= p, r off curve, r of another point, s >= n (n, n+1, 2^256-1, s+n wrapped), "
        "s = 0, n-s, the odd-y twin (x(R) = r but y odd), R = infinity (s = e*d), other key, other / truncated / extended message, boundary x-only keys; oracle: verdict of pyref.bip340.verify; "
        "(c) order-13 / order-199 builds: honest signature verifies, every re-encoding s + k*order (k >= 1, < 2^256) and the negation order - s are rejected (only group-agnostic relations). "
        "non-trivial = message length != 32, or aux absent, or the candidate is not an unmodified honest signature")
ASSUMPTIONS = ["pyref.bip340 / pyref.ec implement BIP-340 (validated against the BIP's test vectors at selftest time)",
               "key objects handed to the API come from the library's own constructors / parsers",
               "small-group builds: only relations that hold in every prime-order group are asserted, the reference model is not consulted there"]

N, P = ec.N, ec.P
M256 = gens.M256
MAGIC = (0xda, 0x6f, 0xb3, 0x8c)


class ExtraParams(ctypes.Structure):
    _fields_ = [("magic", c_ubyte * 4), ("noncefp", c_void_p), ("ndata", c_void_p)]


def extraparams(noncefp=None, ndata=None):
    ep = ExtraParams()
    for i, v in enumerate(MAGIC):
        ep.magic[i] = v
    ep.noncefp = noncefp
    ep.ndata = ndata
    return ep


# ------------------------------------------------------------------ messages as small specs (cases stay small and shrinkable)
def expand_msg(spec):
    n = spec["len"]
    f = spec["fill"]
    if f == "hex":
        b = bytes.fromhex(spec["hex"])
        assert len(b) == n
        return b
    if f == "hash":
        return hashlib.shake_256(b"vf-C02-msg" + int(spec["seed"]).to_bytes(8, "big")).digest(n) if n else b""
    return bytes([{"zero": 0, "ff": 255, "80": 128, "a": 97}[f]]) * n


@st.composite
def msg_spec(draw, maxlen=100000, force_len=None):
    n = force_len if force_len is not None else draw(gens.length(maxlen))
    f = draw(st.sampled_from(["hash", "hash", "hash", "zero", "ff", "80", "a", "hex"]))
    if f == "hex":
        if n > 48:
            f = "hash"
        else:
            return {"len": n, "fill": "hex", "hex": draw(st.binary(min_size=n, max_size=n)).hex()}
    spec = {"len": n, "fill": f}
    if f == "hash":
        spec["seed"] = draw(st.integers(0, 1 << 32))
    return spec


aux_st = st.one_of(st.none(), st.none(), st.just("00" * 32), gens.hexbytes(32), gens.hexbytes(32), st.just("ff" * 32),
                   gens.bytes32_edge)


@st.composite
def key_st(draw):
    sk = draw(gens.seckey_valid)
    if draw(st.booleans()):
        sk = N - sk
    return sk


def len_class(n):
    if n == 32:
        return "len=32"
    if n == 0:
        return "len=0"
    if n <= 300:
        return "len<=300"
    if n <= 1000:
        return "len<=1000"
    return "len>1000"


def make_keypair(env, sk):
    r, kp = env.lib.keypair_create(ec.i2b(sk))
    env.require(r == 1, "keypair_create failed for a valid secret key", sk=hex(sk))
    return kp


def xonly_of_keypair(env, kp):
    xpk = buf(64)
    par = c_int(7)
    r = env.lib.dll.secp256k1_keypair_xonly_pub(env.lib.ctx, xpk, byref(par), kp)
    env.require(r == 1, "keypair_xonly_pub failed")
    return xpk, par.value


def lib_sign_custom(env, msg, kp, ep, null_msg=False):
    sig = buf(64, b"\xAA" * 64)
    m = None if (null_msg and len(msg) == 0) else buf(max(1, len(msg)), msg)
    r = env.lib.dll.secp256k1_schnorrsig_sign_custom(env.lib.ctx, sig, m, c_size_t(len(msg)), kp, byref(ep) if ep is not None else None)
    return r, sig.raw


def lib_verify(env, sig, msg, xpk, null_msg=False):
    m = None if (null_msg and len(msg) == 0) else buf(max(1, len(msg)), msg)
    s = buf(64, sig)
    return env.lib.dll.secp256k1_schnorrsig_verify(env.lib.ctx, s, m, c_size_t(len(msg)), xpk)


ENTRIES = ["sign32", "sign_dep", "custom_null", "custom_fpnull", "custom_fp340", "custom_pycb"]


def do_sign(env, entry, sk, msg, aux, nonce=None, null_msg=False):
    """-> (ret, sig bytes, info).  aux: bytes or None.  entry 'custom_null' ignores aux (no way to pass it)."""
    lib = env.lib
    kp = make_keypair(env, sk)
    info = {}
    if entry in ("sign32", "sign_dep"):
        assert len(msg) == 32
        fn = lib.dll.secp256k1_schnorrsig_sign32 if entry == "sign32" else lib.dll.secp256k1_schnorrsig_sign
        sig = buf(64, b"\xAA" * 64)
        r = fn(lib.ctx, sig, buf(32, msg), kp, buf(32, aux) if aux is not None else None)
        return r, sig.raw, info
    if entry == "custom_null":
        r, sig = lib_sign_custom(env, msg, kp, None, null_msg)
        return r, sig, info
    auxb = buf(32, aux) if aux is not None else None
    nd = ctypes.cast(auxb, c_void_p) if auxb is not None else None
    if entry == "custom_fpnull":
        ep = extraparams(None, nd)
    elif entry == "custom_fp340":
        ep = extraparams(lib.nonce_bip340, nd)
    else:
        seen = info

        def cb(nonce32, m, mlen, key32, pk32, algo, algolen, data):
            try:
                seen["key32"] = ctypes.string_at(key32, 32)
                seen["pk32"] = ctypes.string_at(pk32, 32)
                seen["algo"] = ctypes.string_at(algo, algolen) if algo else None
                seen["msg"] = ctypes.string_at(m, mlen) if (m and mlen) else b""
                seen["msg_null"] = not m
                seen["data"] = ctypes.string_at(data, 32) if data else None
                ctypes.memmove(nonce32, nonce, 32)
                return 1
            except Exception as e:  # pragma: no cover
                seen["exc"] = repr(e)
                return 0
        cfn = NONCEFN_HARDENED(cb)
        info["_keep"] = cfn
        ep = extraparams(ctypes.cast(cfn, c_void_p), nd)
    r, sig = lib_sign_custom(env, msg, kp, ep, null_msg)
    return r, sig, info


def ref_sign_with_nonce(sk, msg, k0):
    """BIP-340 signing steps after the nonce has been chosen (k0 already reduced, non-zero)."""
    Pt = ec.mulg(sk)
    d = sk if ec.has_even_y(Pt) else N - sk
    R = ec.mulg(k0)
    k = k0 if ec.has_even_y(R) else N - k0
    e = ec.b2i(ec.tagged_hash("BIP0340/challenge", ec.xbytes(R) + ec.xbytes(Pt) + msg)) % N
    return ec.xbytes(R) + ec.i2b((k + e * d) % N)


# ------------------------------------------------------------------ (a) signing
@st.composite
def sign_case(draw):
    entry = draw(st.sampled_from(ENTRIES + ["custom_fpnull", "custom_fp340", "custom_null"]))
    case = {"sk": draw(key_st()), "entry": entry}
    if entry in ("sign32", "sign_dep"):
        case["msg"] = draw(msg_spec(force_len=32))
    else:
        case["msg"] = draw(msg_spec())
    case["aux"] = None if entry == "custom_null" else draw(aux_st)
    if entry == "custom_pycb":
        case["nonce"] = draw(st.one_of(gens.bytes32_edge, gens.hexbytes(32), st.sampled_from([0, N, 1, N - 1, N + 1, M256]).map(gens.i2h)))
    case["null_msg"] = draw(st.booleans())
    return case


def run_sign(env, case):
    lib = env.lib
    sk, entry = case["sk"], case["entry"]
    msg = expand_msg(case["msg"])
    aux = bytes.fromhex(case["aux"]) if case.get("aux") is not None else None
    classes = ["entry:" + entry, len_class(len(msg)), "aux:" + ("none" if aux is None else ("zero" if aux == bytes(32) else "set"))]
    Pt = ec.mulg(sk)
    classes.append("pk_even" if ec.has_even_y(Pt) else "pk_odd")
    lib.reset()
    nonce = bytes.fromhex(case["nonce"]) if entry == "custom_pycb" else None
    r, sig, info = do_sign(env, entry, sk, msg, aux, nonce, case.get("null_msg", False))
    kp = make_keypair(env, sk)
    xpk, par = xonly_of_keypair(env, kp)
    pk32 = lib.xonly_serialize(xpk)
    env.require(pk32 == ec.xbytes(Pt) and par == (Pt[1] & 1), "x-only key of the keypair differs from the reference", got=pk32, parity=par)
    if entry == "custom_pycb":
        env.require("exc" not in info, "harness: nonce callback raised " + str(info.get("exc")))
        k0 = ec.b2i(nonce) % N
        d = sk if ec.has_even_y(Pt) else N - sk
        env.require(info.get("pk32") == ec.xbytes(Pt), "nonce function was given a public key that is not the signer's x-only key")
        env.require(info.get("key32") is not None and ec.xbytes(ec.mulg(ec.b2i(info["key32"]))) == info["pk32"] and 1 <= ec.b2i(info["key32"]) < N,
                    "nonce function: xonly_pk32 does not correspond to key32")
        env.require(info.get("msg") == msg, "nonce function saw a different message")
        env.require(info.get("data") == aux, "nonce function did not receive ndata")
        if k0 == 0:
            # BIP-340: fail if k' = 0.  The header only says 0 = failure; a success here would have to verify.
            classes.append("nonce_zero")
            if r == 1:
                env.require(bip340.verify(pk32, msg, sig), "signature made with a zero nonce reported success but does not verify")
            return True, classes
        env.require(r == 1, "sign_custom failed although the nonce function succeeded with a non-zero nonce")
        expect = ref_sign_with_nonce(sk, msg, k0)
        env.require(sig == expect, "signature with scripted nonce differs from BIP-340 (R = k'G, even-y rule, s = k + e d)", got=sig, expect=expect)
        classes.append("nonce_ge_n" if ec.b2i(nonce) >= N else "nonce_ok")
    else:
        env.require(r == 1, "signing failed for a valid keypair", entry=entry)
        expect = bip340.sign(sk, msg, aux)
        env.require(sig == expect, "signature differs from BIP-340 default signing (msglen=%d, aux %s, %s)" % (len(msg), "absent" if aux is None else "given", entry),
                    got=sig, expect=expect)
    env.require(lib.illegal() == 0 and lib.errors() == 0, "callback fired during signing: " + lib.cbmsg())
    v = lib_verify(env, sig, msg, xpk, case.get("null_msg", False))
    env.require(v == 1, "signature produced by the library does not verify", sig=sig)
    if entry in ("sign32", "sign_dep"):
        # documented equivalence of sign32 and sign_custom(extraparams.ndata = aux)
        r2, sig2, _ = do_sign(env, "custom_fpnull", sk, msg, aux)
        env.require(r2 == 1 and sig2 == sig, "sign32 and sign_custom(ndata=aux) differ on a 32-byte message")
    nontrivial = len(msg) != 32 or aux is None or entry == "custom_pycb"
    return nontrivial, classes


# ------------------------------------------------------------------ every message length 0..300 (bounded exhaustive)
def lengths_enum(tier, shard, nshards):
    reps = 1 if tier == "quick" else 8
    i = 0
    for rep in range(reps):
        for n in range(0, 301):
            if i % nshards == shard:
                yield {"len": n, "rep": rep}
            i += 1


def run_length(env, case):
    n, rep = case["len"], case["rep"]
    h = ec.sha256(b"vf-C02-len" + n.to_bytes(4, "big") + rep.to_bytes(4, "big"))
    sk = ec.b2i(h) % (N - 1) + 1
    if (n + rep) & 1:
        sk = N - sk
    msg = hashlib.shake_256(h).digest(n) if n else b""
    aux = None if (n + rep) % 3 == 0 else (bytes(32) if (n + rep) % 3 == 1 else ec.sha256(h))
    entry = ["custom_fpnull", "custom_fp340"][(n // 3 + rep) & 1]
    if aux is None and (n + rep) % 2 == 0:
        entry = "custom_null"
    env.lib.reset()
    r, sig, _ = do_sign(env, entry, sk, msg, aux, null_msg=bool(rep & 1))
    env.require(r == 1, "signing failed for a valid keypair (msglen=%d)" % n)
    expect = bip340.sign(sk, msg, aux)
    env.require(sig == expect, "signature differs from BIP-340 default signing for msglen=%d (%s, aux %s)" % (n, entry, "absent" if aux is None else "given"),
                got=sig, expect=expect)
    kp = make_keypair(env, sk)
    xpk, _ = xonly_of_keypair(env, kp)
    env.require(lib_verify(env, sig, msg, xpk) == 1, "library signature does not verify (msglen=%d)" % n)
    # neighbouring lengths must not verify (BIP-340: the whole message enters the challenge)
    if n:
        env.require(lib_verify(env, sig, msg[:-1], xpk) == 0, "signature verifies for the message truncated by one byte (msglen=%d)" % n)
    env.require(lib_verify(env, sig, msg + b"\x00", xpk) == 0, "signature verifies for the message extended by a zero byte (msglen=%d)" % n)
    if n == 32:
        r3, sig3, _ = do_sign(env, "sign32", sk, msg, aux)
        env.require(r3 == 1 and sig3 == sig, "sign32 differs from sign_custom on a 32-byte message")
    env.require(env.lib.illegal() == 0 and env.lib.errors() == 0, "callback fired: " + env.lib.cbmsg())
    return (n != 32 or aux is None), ["len_enum", "entry:" + entry, "aux:" + ("none" if aux is None else "set")]


# ------------------------------------------------------------------ (b) verification
MUTS = ["honest", "bitflip_sig", "bitflip_sig", "bitflip_msg", "bitflip_pk", "r_ge_p", "r_offcurve", "r_other", "s_ge_n", "s_ge_n", "s_zero", "s_neg", "s_neg",
        "odd_y_twin", "odd_y_twin", "R_inf", "other_key", "msg_trunc", "msg_ext", "msg_tail", "swap_rs", "zero_sig", "r_zero_sinf", "other_msg_sig"]


@st.composite
def verify_case(draw):
    case = {"sk": draw(key_st()), "msg": draw(msg_spec(maxlen=20000)), "aux": draw(aux_st),
            "mut": draw(st.sampled_from(MUTS)), "a": draw(st.integers(0, 1 << 20)), "b": draw(st.integers(0, 1 << 20)),
            "pk_mode": draw(st.sampled_from(["parse", "parse", "keypair", "from_pubkey"])),
            "null_msg": draw(st.booleans())}
    if draw(st.integers(0, 3)) == 0:
        case["msg"] = draw(msg_spec(force_len=32))
    return case


def find_x(start, want_on_curve):
    x = start % P
    while (ec.lift_x(x) is not None) != want_on_curve:
        x = (x + 1) % P
    return x


def mutate(case, sk, msg, sig):
    """-> (sig', msg', pk32', label)"""
    mut, a, b = case["mut"], case["a"], case["b"]
    Pt = ec.mulg(sk)
    d = sk if ec.has_even_y(Pt) else N - sk
    pk32 = ec.xbytes(Pt)
    r, s = ec.b2i(sig[:32]), ec.b2i(sig[32:])
    lab = mut

    def chal(r32, m):
        return ec.b2i(ec.tagged_hash("BIP0340/challenge", r32 + pk32 + m)) % N

    if mut == "honest":
        pass
    elif mut == "bitflip_sig":
        pos = a % 512
        t = bytearray(sig)
        t[pos // 8] ^= 1 << (pos % 8)
        sig = bytes(t)
    elif mut == "bitflip_msg":
        if len(msg) == 0:
            msg = b"\x00"
            lab = "msg_ext"
        else:
            # bias towards the last byte and the region beyond 300 bytes
            pos = (len(msg) * 8 - 1 - (a % 8)) if b % 3 == 0 else a % (len(msg) * 8)
            t = bytearray(msg)
            t[pos // 8] ^= 1 << (pos % 8)
            msg = bytes(t)
    elif mut == "bitflip_pk":
        pos = a % 256
        t = bytearray(pk32)
        t[pos // 8] ^= 1 << (pos % 8)
        pk32 = bytes(t)
    elif mut == "r_ge_p":
        v = [P, P + 1, M256, P + (a % 977), (r % 977) + P][b % 5]
        sig = ec.i2b(v) + sig[32:]
    elif mut == "r_offcurve":
        sig = ec.i2b(find_x(r + 1 + a, False)) + sig[32:]
    elif mut == "r_other":
        sig = ec.i2b(find_x(r + 1 + a, True)) + sig[32:]
    elif mut == "s_ge_n":
        v = [N, N + 1, M256, (s + N) if s + N <= M256 else N + (s % (M256 + 1 - N)), N + (a % 1000)][b % 5]
        sig = sig[:32] + ec.i2b(v)
    elif mut == "s_zero":
        sig = sig[:32] + bytes(32)
    elif mut == "s_neg":
        sig = sig[:32] + ec.i2b((N - s) % N)
    elif mut == "odd_y_twin":
        # s' = 2 e d - s  gives  s'G - eP = -(sG - eP): same x as r, odd y
        e = chal(sig[:32], msg)
        sig = sig[:32] + ec.i2b((2 * e * d - s) % N)
    elif mut == "R_inf":
        # any r, s = e d  gives  sG - eP = infinity
        r32 = [sig[:32], ec.i2b(find_x(a, True)), bytes(32), ec.i2b(1)][b % 4]
        sig = r32 + ec.i2b(chal(r32, msg) * d % N)
    elif mut == "r_zero_sinf":
        r32 = bytes(32)
        sig = r32 + ec.i2b(chal(r32, msg) * d % N)
    elif mut == "other_key":
        sk2 = (sk + 1 + a) % N or 1
        pk32 = ec.xbytes(ec.mulg(sk2))
    elif mut == "msg_trunc":
        if len(msg):
            msg = msg[:-1] if b % 2 == 0 or len(msg) <= 300 else msg[:300]
        else:
            msg = b"\x00"
            lab = "msg_ext"
    elif mut == "msg_ext":
        msg = msg + bytes([a & 255]) * (1 + b % 3)
    elif mut == "msg_tail":
        if len(msg):
            t = bytearray(msg)
            t[-1] ^= 1 + (a % 255)
            msg = bytes(t)
        else:
            msg = b"\x01"
            lab = "msg_ext"
    elif mut == "swap_rs":
        sig = sig[32:] + sig[:32]
    elif mut == "zero_sig":
        sig = bytes(64)
    elif mut == "other_msg_sig":
        sig = bip340.sign(sk, msg + b"x", None)
    return sig, msg, pk32, lab


def load_xonly(env, pk32, mode, sk_hint):
    """x-only key object for pk32; returns None when the strict parser refuses (then the reference must refuse too)."""
    lib = env.lib
    pt = ec.lift_x(ec.b2i(pk32), 0)
    if mode == "keypair" and sk_hint is not None:
        kp = make_keypair(env, sk_hint)
        xpk, _ = xonly_of_keypair(env, kp)
        return xpk
    if mode == "from_pubkey" and pt is not None:
        # go through the full key with ODD y: the conversion has to normalise it
        full = lib.pubkey_from_point((pt[0], P - pt[1]) if (env_flag(pk32)) else pt)
        xpk = buf(64)
        par = c_int(9)
        r = lib.dll.secp256k1_xonly_pubkey_from_pubkey(lib.ctx, xpk, byref(par), full)
        env.require(r == 1, "xonly_pubkey_from_pubkey failed")
        env.require(par.value == (1 if env_flag(pk32) else 0), "xonly_pubkey_from_pubkey parity wrong")
        return xpk
    r, xpk = lib.xonly_parse(pk32)
    env.require((r == 1) == (pt is not None), "xonly_pubkey_parse verdict %d differs from lift_x" % r, pk=pk32)
    return xpk if r == 1 else None


def env_flag(pk32):
    return pk32[-1] & 1 == 1


def run_verify(env, case):
    lib = env.lib
    sk = case["sk"]
    msg = expand_msg(case["msg"])
    aux = bytes.fromhex(case["aux"]) if case.get("aux") is not None else None
    sig = bip340.sign(sk, msg, aux)
    sig2, msg2, pk32, lab = mutate(case, sk, msg, sig)
    classes = ["mut:" + lab, len_class(len(msg2)), "pk:" + case["pk_mode"]]
    lib.reset()
    same_key = pk32 == ec.xbytes(ec.mulg(sk))
    xpk = load_xonly(env, pk32, case["pk_mode"], sk if same_key else None)
    if xpk is None:
        classes.append("pk_parse_reject")
        env.require(lib.illegal() == 0 and lib.errors() == 0, "callback fired in xonly_pubkey_parse: " + lib.cbmsg())
        return True, classes
    env.require(lib.xonly_serialize(xpk) == pk32, "x-only key object does not serialise to the key it was made from")
    expect = bip340.verify(pk32, msg2, sig2)
    got = lib_verify(env, sig2, msg2, xpk, case.get("null_msg", False))
    env.require(got == (1 if expect else 0), "schnorrsig_verify verdict %d, BIP-340 says %d (%s, msglen=%d)" % (got, expect, lab, len(msg2)),
                sig=sig2, pk=pk32, msglen=len(msg2))
    env.require(lib.illegal() == 0 and lib.errors() == 0, "callback fired in schnorrsig_verify: " + lib.cbmsg())
    honest = (sig2 == sig and msg2 == msg and same_key)
    if honest:
        env.require(got == 1, "honest signature rejected")
    classes.append("accept" if got else "reject")
    rr, ss = ec.b2i(sig2[:32]), ec.b2i(sig2[32:])
    if rr >= P:
        classes.append("r>=p")
    elif ec.lift_x(rr) is None:
        classes.append("r_offcurve")
    if ss >= N:
        classes.append("s>=n")
    if len(msg2) > 300:
        classes.append("long_msg")
    return (not honest) or len(msg) != 32 or aux is None, classes


# ------------------------------------------------------------------ every single-bit flip of one honest signature
@st.composite
def flips_case(draw):
    return {"sk": draw(key_st()), "msg": draw(msg_spec(maxlen=600)), "aux": draw(aux_st)}


def run_flips(env, case):
    lib = env.lib
    sk = case["sk"]
    msg = expand_msg(case["msg"])
    aux = bytes.fromhex(case["aux"]) if case.get("aux") is not None else None
    sig = bip340.sign(sk, msg, aux)
    pk32 = ec.xbytes(ec.mulg(sk))
    lib.reset()
    r, xpk = lib.xonly_parse(pk32)
    env.require(r == 1, "xonly_pubkey_parse refused a valid key")
    env.require(lib_verify(env, sig, msg, xpk) == 1, "reference-made honest signature rejected", sig=sig)
    acc = 0
    for pos in range(512):
        t = bytearray(sig)
        t[pos // 8] ^= 1 << (pos % 8)
        t = bytes(t)
        expect = bip340.verify(pk32, msg, t)
        got = lib_verify(env, t, msg, xpk)
        env.require(got == (1 if expect else 0), "verdict %d for the honest signature with bit %d flipped, BIP-340 says %d" % (got, pos, expect), sig=t, pk=pk32)
        acc += got
    env.require(lib.illegal() == 0 and lib.errors() == 0, "callback fired: " + lib.cbmsg())
    return True, ["all_512_flips", "flip_accepted" if acc else "all_flips_rejected"]


# ------------------------------------------------------------------ boundary x-only keys with arbitrary signatures
@st.composite
def xonly_case(draw):
    x = draw(st.one_of(gens.u256_edge, st.integers(0, 64), st.integers(P - 64, P + 64), st.integers(0, M256)))
    return {"x": x, "sig": draw(st.one_of(gens.hexbytes(64), st.tuples(gens.bytes32_edge, gens.bytes32_edge).map(lambda t: t[0] + t[1]))),
            "msg": draw(msg_spec(maxlen=400))}


def run_xonly(env, case):
    lib = env.lib
    lib.reset()
    pk32 = ec.i2b(case["x"])
    sig = bytes.fromhex(case["sig"])
    msg = expand_msg(case["msg"])
    pt = ec.lift_x(case["x"], 0)
    r, xpk = lib.xonly_parse(pk32)
    env.require((r == 1) == (pt is not None), "xonly_pubkey_parse verdict %d differs from lift_x for x=%x" % (r, case["x"]))
    classes = ["x>=p" if case["x"] >= P else ("x_on_curve" if pt is not None else "x_off_curve")]
    if r == 1:
        env.require(lib.xonly_serialize(xpk) == pk32, "serialize(parse(x)) != x")
        expect = bip340.verify(pk32, msg, sig)
        got = lib_verify(env, sig, msg, xpk)
        env.require(got == (1 if expect else 0), "schnorrsig_verify verdict %d, BIP-340 says %d (boundary key)" % (got, expect), sig=sig, pk=pk32)
        classes.append("accept" if got else "reject")
    env.require(lib.illegal() == 0 and lib.errors() == 0, "callback fired: " + lib.cbmsg())
    return True, classes


# ------------------------------------------------------------------ (c) small-group clause: s + k*order is rejected
def small_order(env):
    return {"small13": 13, "small199": 199}[env.cfg]


@st.composite
def small_case(draw):
    maxk = M256 // 13
    ks = draw(st.lists(st.one_of(st.integers(1, 8), st.integers(1, 1 << 32), st.integers(1, maxk), st.integers(0, 250).map(lambda j: 1 << j),
                                 st.just(maxk)), min_size=1, max_size=6))
    return {"ski": draw(st.integers(0, 1 << 16)), "msg": draw(msg_spec(maxlen=400)), "aux": draw(aux_st), "ks": ks,
            "use32": draw(st.booleans())}


def run_small(env, case):
    lib = env.lib
    order = small_order(env)
    sk = case["ski"] % (order - 1) + 1
    spec = dict(case["msg"])
    if case["use32"]:
        spec = {"len": 32, "fill": "hash", "seed": spec.get("seed", case["ski"])}
    msg = expand_msg(spec)
    aux = bytes.fromhex(case["aux"]) if case.get("aux") is not None else None
    lib.reset()
    r, kp = lib.keypair_create(ec.i2b(sk))
    env.require(r == 1, "keypair_create failed for 1 <= sk < order in the small group", sk=sk)
    xpk, _ = xonly_of_keypair(env, kp)
    if len(msg) == 32:
        sig = buf(64, b"\xAA" * 64)
        r = lib.dll.secp256k1_schnorrsig_sign32(lib.ctx, sig, buf(32, msg), kp, buf(32, aux) if aux is not None else None)
        sig = sig.raw
        entry = "sign32"
    else:
        auxb = buf(32, aux) if aux is not None else None
        ep = extraparams(None, ctypes.cast(auxb, c_void_p) if auxb is not None else None)
        r, sig = lib_sign_custom(env, msg, kp, ep)
        entry = "custom"
    classes = ["order=%d" % order, "entry:" + entry]
    if r != 1:
        # the derived nonce is 0 mod order with probability 1/order: BIP-340 says fail
        classes.append("sign_failed_zero_nonce")
        return False, classes
    env.require(lib_verify(env, sig, msg, xpk) == 1, "honest signature does not verify in the order-%d group" % order, sig=sig, sk=sk)
    s = ec.b2i(sig[32:])
    env.require(s < order, "signer emitted s >= group order", s=s)
    classes.append("honest_ok")
    if s != 0:
        # (order - s)G - eP equals R only if 2sG = 0 (s = 0); the other point with x = r is -R, which has odd y: must be rejected in any odd prime-order group
        env.require(lib_verify(env, sig[:32] + ec.i2b(order - s), msg, xpk) == 0,
                    "honest signature with s replaced by its negation order - s was accepted", s=s, order=order, sig=sig)
        classes.append("negated_s_rejected")
    for k in case["ks"]:
        s2 = s + k * order
        if s2 > M256:
            k = (M256 - s) // order
            s2 = s + k * order
        got = lib_verify(env, sig[:32] + ec.i2b(s2), msg, xpk)
        env.require(got == 0, "non-canonical re-encoding s + %d*order of a valid signature was accepted (s >= n must be rejected)" % k,
                    s=s, k=k, order=order, sig=sig)
        classes.append("s_plus_k_order_rejected")
    env.require(lib.illegal() == 0 and lib.errors() == 0, "callback fired: " + lib.cbmsg())
    return True, classes


SMALL = {"quick": ["small13", "small199"], "thorough": ["small13", "small199"]}
FULL = {"quick": ["prod"], "thorough": ["prod", "int64", "struct"]}
# the sanitizer build runs Python itself under ASan (Hypothesis generation is ~10x slower there): separate, smaller budgets
VSAN = {"quick": ["vsan"], "thorough": ["vsan"]}
CFGS = {"quick": ["int64", "struct"], "thorough": ["int64", "struct", "noasm"]}
BOTH = {"quick": ["prod", "vsan"], "thorough": ["prod", "vsan"]}

TESTS = [
    Test("sign", sign_case, run_sign, quick=3000, thorough=120000, cfgs=FULL, max_workers=6,
         must_cover=["entry:sign32", "entry:custom_null", "entry:custom_fpnull", "entry:custom_fp340", "entry:custom_pycb", "aux:none", "aux:zero", "aux:set",
                     "pk_even", "pk_odd", "len=0", "len<=300", "len<=1000", "len>1000"]),
    Test("sign_vsan", sign_case, run_sign, quick=160, thorough=6000, cfgs=VSAN, must_cover=["aux:none", "len>1000"]),
    Test("lengths", lengths_enum, run_length, kind="enum", cfgs=BOTH, max_workers=6, must_cover=["len_enum"]),
    Test("verify", verify_case, run_verify, quick=8000, thorough=250000, cfgs=FULL, max_workers=12,
         must_cover=["accept", "reject", "r>=p", "r_offcurve", "s>=n", "long_msg", "mut:honest", "mut:odd_y_twin", "mut:R_inf", "mut:bitflip_sig",
                     "mut:msg_tail", "mut:msg_trunc", "mut:other_key", "mut:s_neg", "pk_parse_reject"]),
    Test("verify_vsan", verify_case, run_verify, quick=400, thorough=15000, cfgs=VSAN, must_cover=["accept", "reject", "s>=n"]),
    # the property quantifies over build configurations: the alternative limb configurations also run in the quick tier
    Test("sign_cfg", sign_case, run_sign, quick=500, thorough=2000, cfgs=CFGS, max_workers=3, must_cover=["pk_odd", "len>1000"]),
    Test("verify_cfg", verify_case, run_verify, quick=800, thorough=3000, cfgs=CFGS, max_workers=3, must_cover=["accept", "reject"]),
    Test("bitflips", flips_case, run_flips, quick=9, thorough=400, cfgs=BOTH, must_cover=["all_512_flips"]),
    Test("xonly_boundary", xonly_case, run_xonly, quick=1000, thorough=40000, cfgs=FULL, max_workers=3,
         must_cover=["x>=p", "x_on_curve", "x_off_curve", "reject"]),
    Test("small_group", small_case, run_small, quick=1500, thorough=60000, cfgs=SMALL, max_workers=4,
         must_cover=["honest_ok", "s_plus_k_order_rejected", "negated_s_rejected", "order=13", "order=199"]),
]
