"""C01 — ECDSA verification and signing are exact over all inputs (incl. recoverable signatures)."""
import ctypes
from ctypes import c_int, byref

from hypothesis import strategies as st

from pyref import ec, ecdsa, der
from vf import gens
from vf.core import Test
from vf.lib import buf, NONCEFN

N, P, HALF = ec.N, ec.P, ec.HALF_N
M256 = gens.M256

RULE = ("cases: (a) signing: secret key from seckey_any (about 15 % invalid), message from msg32 (>= 20 % at or above n), optional 32-byte extra data, nonce source in "
        "{NULL, rfc6979 pointer, default pointer, ctypes callback that fails, ctypes callback replaying a scripted nonce list whose entries are 0 / >= n / valid / 'fail', "
        "message chosen so that the first valid scripted nonce gives s = 0}; plain and recoverable entry points; oracle = pyref.ecdsa.sign byte for byte, "
        "all-zero output on failure, recover == key. (b) verification: (r,s,msg,Q) from honest signatures, their high-S twins, signatures CONSTRUCTED from a chosen R "
        "(R.x in [n,p), next to n, 1, next to p-n; s at the half-order boundaries, 1, n-1), boundary (r,s) pairs, each followed by 0..2 mutations "
        "(bit flips, r/s = 0, swap, negated / other key, other message, message +- n, s -> n-s, +n re-encodings); oracle = pyref.ecdsa.verify (equation and 1 <= s <= n/2), "
        "normalize, DER round trip of the object; all four recovery ids against pyref.ecdsa.recover. "
        "LIMB-PREFIX classes: s (and r, msg, key, nonces, R.x) equal to a constant c in {n/2, n, p, p-n} on the top 32k bits (k = 1..7) and differing in a lower limb (0 / all ones / random / c's limb +-1), "
        "used for s of constructed VALID signatures on either side of the half order; the int64 (8x32 scalar, 10x26 field) and int128-struct builds run a limb-prefix-heavy share in the quick tier. "
        "non-trivial = msg >= n, or s within 1 of a half-order boundary, or s sharing >= 4 top limbs with n/2, or R.x >= n, or invalid key, or failing / retrying nonce source, or any mutation, or a successful recovery with recid >= 2")
ASSUMPTIONS = ["pyref.ecdsa / pyref.rfc6979 / pyref.ec are correct (validated against the published RFC 6979 secp256k1 vectors and curve identities in pyref.selftest)",
               "public keys handed to verify are objects made by the library's strict parser from the reference point",
               "nonce callbacks return 0 or 1 only (other return values are not documented)"]



def b32(v):
    return int(v).to_bytes(32, "big")


# ------------------------------------------------------------------ limb-prefix values
# The library compares scalars / field elements with constants limb by limb (32- or 64-bit limbs for scalars).  A wrong constant or a
# dropped step in such a chain is visible only for values that EQUAL the constant on all higher limbs and differ in one lower limb.
def limb_prefix(c, k, mode, j, rnd):
    """value equal to c on the top k*32 bits (k = 1..7); the low L = 256-32k bits by mode:
    zero / ones / rand / own+ / own- (c's low bits +- 1 in limb j) / limb0 / limbF / limb+ / limb- (limb j := 0, 0xFFFFFFFF, c's limb +- 1; other low limbs = c's)"""
    L = 256 - 32 * k
    lowmask = (1 << L) - 1
    top = c & ~lowmask & M256
    clow = c & lowmask
    j = (7 - k) - (j % (8 - k))           # a limb strictly below the prefix; j = 0 is the limb right below it (the one that decides the comparison)
    lm = 0xFFFFFFFF << (32 * j)
    if mode == "zero":
        low = 0
    elif mode == "ones":
        low = lowmask
    elif mode == "rand":
        low = rnd & lowmask
    elif mode == "own+":
        low = (clow + (1 << (32 * j))) & lowmask
    elif mode == "own-":
        low = (clow - (1 << (32 * j))) & lowmask
    elif mode == "limb0":
        low = clow & ~lm
    elif mode == "limbF":
        low = clow | lm
    elif mode == "limb+":
        low = (clow & ~lm) | ((((clow >> (32 * j)) + 1) & 0xFFFFFFFF) << (32 * j))
    elif mode == "limb-":
        low = (clow & ~lm) | ((((clow >> (32 * j)) - 1) & 0xFFFFFFFF) << (32 * j))
    else:
        raise ValueError(mode)
    return top | (low & lowmask)


_LP_MODES = ["zero", "ones", "rand", "own+", "own-", "limb0", "limbF", "limb+", "limb-", "own+", "own-", "limb+", "limb-"]


def lp_strategy(consts):
    """-> strategy of [value, label] ; label names the constant and the prefix length (for the class histogram)"""
    names = {HALF: "half", N: "n", P: "p", P - N: "p-n"}
    return st.builds(lambda c, k, mode, j, rnd: [limb_prefix(c, k, mode, j, rnd), "%s/k%d" % (names[c], k)],
                     st.sampled_from(consts), st.integers(1, 7), st.sampled_from(_LP_MODES), st.sampled_from([0, 0, 0, 1, 2, 3, 4, 5, 6]), st.integers(0, M256))


def lp_values(consts):
    return lp_strategy(consts).map(lambda t: t[0])


# ------------------------------------------------------------------ signing
_invalid_nonce = st.one_of(st.sampled_from([0, N, N + 1, M256, M256 - 1, P]), st.integers(N, M256), lp_values([N]).filter(lambda v: v >= N))
_valid_nonce = st.one_of(gens.seckey_valid, gens.seckey_valid, lp_values([N]).filter(lambda v: 1 <= v < N))


@st.composite
def sign_case(draw):
    case = {"sk": draw(st.one_of(gens.seckey_any, gens.seckey_any, lp_values([N]))), "msg": draw(st.one_of(gens.msg32, gens.msg32, lp_values([N]))),
            "extra": draw(st.one_of(st.none(), st.none(), gens.hexbytes(32), st.sampled_from(["00" * 32, "ff" * 32]))),
            "src": draw(st.sampled_from(["null", "null", "null", "rfc6979", "default", "fail", "script", "script", "script"]))}
    if case["src"] == "script":
        script = [draw(_invalid_nonce) for _ in range(draw(st.sampled_from([0, 0, 1, 1, 2, 3])))]
        tail = draw(st.sampled_from(["valid", "valid", "valid", "fail", "none", "valid2"]))
        if tail in ("valid", "valid2"):
            script.append(draw(_valid_nonce))
        if tail == "valid2":
            script.append(draw(_valid_nonce))
        if tail == "fail":
            script.append(-1)
        case["script"] = script
        if tail in ("valid", "valid2") and draw(st.integers(0, 3)) == 0:
            case["m_s0"] = True
    return case


def _expected_msg(case):
    """the message; for the s=0 class it is derived from the key and the first valid scripted nonce: m = -r d mod n"""
    msg = case["msg"]
    if case.get("m_s0") and 1 <= case["sk"] < N:
        for k in case["script"]:
            if 1 <= k < N:
                r = ec.mulg(k)[0] % N
                msg = (-r * case["sk"]) % N
                break
    return msg


class NonceSource:
    """ctypes nonce callback replaying a script; records what the library passed."""

    def __init__(self, script, always_fail=False):
        self.script = script
        self.always_fail = always_fail
        self.calls = []
        self.error = None
        self.cb = NONCEFN(self._call)

    def _call(self, nonce32, msg32, key32, algo16, data, attempt):
        try:
            self.calls.append((attempt, ctypes.string_at(msg32, 32) if msg32 else None, ctypes.string_at(key32, 32) if key32 else None, algo16, data))
            if len(self.calls) > 64:
                return 0          # never loop for ever on a broken retry counter
            if self.always_fail or attempt >= len(self.script) or self.script[attempt] < 0:
                return 0
            ctypes.memmove(nonce32, b32(self.script[attempt]), 32)
            return 1
        except Exception as e:  # pragma: no cover
            self.error = repr(e)
            return 0


def run_sign(env, case):
    lib = env.lib
    d = lib.dll
    sk, src = case["sk"], case["src"]
    msg = _expected_msg(case)
    sk32, msg32 = b32(sk), b32(msg)
    extra = bytes.fromhex(case["extra"]) if case["extra"] is not None else None
    valid = 1 <= sk < N
    classes = ["src:" + src, "key_valid" if valid else "key_invalid"]
    if msg >= N:
        classes.append("msg>=n")
    if (sk >> 128) == (N >> 128):
        classes.append("key~n:" + ("valid" if valid else "invalid"))
    if (msg >> 128) == (N >> 128):
        classes.append("msg~n")
    ndata = buf(32, extra) if extra is not None else None
    ns = None
    script = None
    if src == "null":
        fp = None
    elif src == "rfc6979":
        fp = lib.nonce_rfc6979
    elif src == "default":
        fp = lib.nonce_default
    else:
        script = case.get("script", [])
        ns = NonceSource(script, always_fail=(src == "fail"))
        fp = ns.cb
    # ---- reference
    if not valid:
        ref = None
    elif ns is None:
        ref = ecdsa.sign(sk32, msg32, extra)
    else:
        ncalls = [0]

        def source(counter):
            ncalls[0] += 1
            if src == "fail" or counter >= len(script) or script[counter] < 0:
                return None
            return b32(script[counter])
        ref = ecdsa.sign(sk32, msg32, extra, nonce_source=source)
    # ---- library: plain
    lib.reset()
    sig = buf(64, b"\xAA" * 64)
    ret = d.secp256k1_ecdsa_sign(lib.ctx, sig, msg32, sk32, fp, ndata)
    env.require(ret == (1 if ref is not None else 0), "ecdsa_sign returned %d, expected %d" % (ret, 1 if ref is not None else 0), sk_valid=valid, src=src)
    env.require(lib.illegal() == 0 and lib.errors() == 0, "callback fired in ecdsa_sign: " + lib.cbmsg())
    out = lib.sig_serialize_compact(sig)
    if ns is not None:
        if ns.error:
            raise RuntimeError("nonce callback raised: " + ns.error)
        env.require(len(ns.calls) <= 64, "nonce function called more than 64 times (attempt counter not advancing?)", attempts=[c[0] for c in ns.calls[:8]])
        env.require([c[0] for c in ns.calls] == list(range(len(ns.calls))), "nonce function attempts are not 0,1,2,...", attempts=[c[0] for c in ns.calls])
        for c in ns.calls:
            env.require(c[1] == msg32 and c[2] == sk32, "nonce function received a different message / key than the caller passed")
            env.require(c[3] is None, "nonce function received algo16 != NULL for ECDSA")
            env.require((c[4] or 0) == (ctypes.addressof(ndata) if ndata is not None else 0), "nonce function data pointer not passed through")
        if valid:
            env.require(len(ns.calls) == ncalls[0], "nonce function called %d times, the retry rule implies %d" % (len(ns.calls), ncalls[0]))
            if ncalls[0] > 1:
                classes.append("retried")
        if case.get("m_s0") and valid:
            classes.append("s0_retry")
    if ref is None:
        env.require(out == bytes(64), "failed ecdsa_sign left a non-zero signature", sig=out.hex())
        classes.append("sign_fail")
    else:
        r, s, recid = ref
        env.require(out == b32(r) + b32(s), "ecdsa_sign output differs from the RFC 6979 reference", lib=out.hex(), ref=(b32(r) + b32(s)).hex())
        rp, pk = lib.pubkey_create(sk32)
        env.require(rp == 1, "pubkey_create failed for a valid key")
        env.require(lib.pubkey_serialize(pk) == ec.ser33(ec.mulg(sk)), "pubkey_create differs from sk*G")
        env.require(lib.ecdsa_verify(sig, msg32, pk) == 1, "signature made by ecdsa_sign does not verify under the key's public key")
        env.require(s <= HALF and d.secp256k1_ecdsa_signature_normalize(lib.ctx, None, sig) == 0, "ecdsa_sign output is not low-S")
        classes.append("sign_ok")
    # ---- library: recoverable
    if ns is not None:
        ns2 = NonceSource(script, always_fail=(src == "fail"))
        fp = ns2.cb
    rsig = buf(65, b"\xAA" * 65)
    ret2 = d.secp256k1_ecdsa_sign_recoverable(lib.ctx, rsig, msg32, sk32, fp, ndata)
    env.require(ret2 == ret, "ecdsa_sign_recoverable returned %d, ecdsa_sign %d" % (ret2, ret))
    out64 = buf(64)
    rid = c_int(-1)
    env.require(d.secp256k1_ecdsa_recoverable_signature_serialize_compact(lib.ctx, out64, byref(rid), rsig) == 1, "recoverable serialize failed")
    conv = buf(64)
    env.require(d.secp256k1_ecdsa_recoverable_signature_convert(lib.ctx, conv, rsig) == 1, "recoverable convert failed")
    env.require(lib.sig_serialize_compact(conv) == out64.raw, "convert(recoverable) differs from the recoverable signature's own (r,s)")
    if ref is None:
        env.require(out64.raw == bytes(64) and rid.value == 0, "failed ecdsa_sign_recoverable left a non-zero signature", sig=out64.raw.hex(), recid=rid.value)
    else:
        env.require(out64.raw == out, "recoverable signature differs from the plain signature", rec=out64.raw.hex(), plain=out.hex())
        env.require(rid.value == ref[2], "recovery id %d, reference %d" % (rid.value, ref[2]))
        rpk = buf(64)
        env.require(d.secp256k1_ecdsa_recover(lib.ctx, rpk, rsig, msg32) == 1, "ecdsa_recover failed on the library's own recoverable signature")
        env.require(lib.pubkey_serialize(rpk) == ec.ser33(ec.mulg(sk)), "ecdsa_recover returned a different key than the signer's")
    env.require(lib.illegal() == 0 and lib.errors() == 0, "callback fired in recoverable signing: " + lib.cbmsg())
    nontrivial = msg >= N or not valid or src == "fail" or "retried" in classes or "s0_retry" in classes
    return nontrivial, classes


# ------------------------------------------------------------------ verification
_XBASE = [N, N + 1, N - 1, N + 2, N - 2, 1, 2, 3, P - 1, P - 2, P - N, P - N - 1, P - N + 1, P - N - 2, P - N + 2, (N + P) // 2, N + (1 << 64), N + (1 << 127)]
_SVALS = [1, 2, 3, HALF - 1, HALF, HALF + 1, HALF + 2, N - 1, N - 2, 0x80, 0xFF, 1 << 127, (1 << 128) - 1]
_BOUND = [0, 1, 2, N - 1, N - 2, HALF, HALF + 1, HALF - 1, P - N, P - N - 1, P - N + 1, 1 << 255, (1 << 128)]

_MUTS = ["bitflip", "bitflip", "r0", "s0", "swap", "negkey", "otherkey", "othermsg", "msg_pm_n", "msg_pm_n", "s_neg", "s_neg", "r_plus_n", "s_plus_n", "r_minus", "s_pm1"]


def _s_of(v):
    """a usable s in [1, n) from a limb-prefix value"""
    return v % N or 1


@st.composite
def verify_case(draw, limb_share=1):
    """limb_share: how many of 6 draws take s / r / msg / x from the limb-prefix classes (the configuration tests use a high share)"""
    kind = draw(st.sampled_from(["honest", "honest", "fromR", "fromR", "fromR", "boundary"] if limb_share < 4 else ["fromR", "fromR", "fromR", "fromR", "boundary", "honest"]))
    use_lp = draw(st.integers(0, 5)) < limb_share
    if kind == "honest":
        base = {"kind": kind, "sk": draw(gens.seckey_valid), "msg": draw(gens.msg32), "k": draw(gens.seckey_valid),
                "high": draw(st.booleans())}
    elif kind == "fromR":
        xb = draw(st.one_of(st.sampled_from(_XBASE), st.sampled_from(_XBASE), st.integers(N, P - 1), st.integers(1, P - N), st.integers(1, 1 << 32),
                            gens.u256_edge.map(lambda v: v % P or 1)))
        base = {"kind": kind, "xbase": xb, "dir": draw(st.sampled_from([1, 1, -1])), "odd": draw(st.integers(0, 1)),
                "s": draw(st.one_of(st.sampled_from(_SVALS), st.sampled_from(_SVALS), gens.seckey_valid)), "msg": draw(gens.msg32)}
        if use_lp:
            # a VALID signature whose s shares its top limbs with n/2 (or n) and differs below: on either side of the half order
            base["s"] = _s_of(draw(lp_values([HALF, HALF, HALF, N])))
            which = draw(st.integers(0, 3))
            if which == 1:
                base["xbase"] = draw(lp_values([N, P, P - N])) % P or 1
            elif which == 2:
                base["msg"] = draw(lp_values([N]))
    else:
        base = {"kind": kind, "r": draw(st.one_of(st.sampled_from(_BOUND), gens.u256_edge.map(lambda v: v % N))),
                "s": draw(st.one_of(st.sampled_from(_BOUND), gens.u256_edge.map(lambda v: v % N))),
                "sk": draw(gens.seckey_valid), "msg": draw(gens.msg32)}
        if use_lp:
            base["r"] = draw(lp_values([N, P - N, HALF])) % N
            base["s"] = draw(lp_values([HALF, N])) % N
    if kind == "honest" and use_lp:
        base["msg"] = draw(lp_values([N]))
    muts = [{"kind": draw(st.sampled_from(_MUTS)), "a": draw(st.integers(0, 511))} for _ in range(draw(st.sampled_from([0, 0, 1, 1, 1, 2])))]
    return {"base": base, "muts": muts}


def find_curve_x(xbase, direction):
    """first x on the curve at or after xbase in the given direction, inside [1, p-1]"""
    x = xbase % P or 1
    for _ in range(4000):
        if ec.lift_x(x) is not None:
            return x
        x += direction
        if x <= 0:
            x = P - 1
        elif x >= P:
            x = 1
    raise RuntimeError("no curve point found")


def build_triple(base):
    """-> r, s, msg (int), Q (point), meta dict"""
    meta = {}
    if base["kind"] == "honest":
        d, m, k = base["sk"], base["msg"], base["k"]
        res = None
        while res is None:
            res = ecdsa.sign_with_nonce(d, m, k)
            k = k % (N - 1) + 1
        r, s, recid = res
        if base["high"]:
            s = N - s
            recid ^= 1
            meta["high_twin"] = True
        meta["recid"] = recid
        return r, s, m, ec.mulg(d), meta
    if base["kind"] == "fromR":
        x = base["xbase"]
        while True:
            x = find_curve_x(x, base["dir"])
            c = ecdsa.construct_from_R(x, base["odd"], base["s"], base["msg"])
            if c is not None:
                break
            x += base["dir"]
        r, Q = c
        meta["xR"] = x
        meta["recid"] = (2 if x >= N else 0) | base["odd"]
        return r, base["s"], base["msg"], Q, meta
    return base["r"], base["s"], base["msg"], ec.mulg(base["sk"]), meta


def run_verify(env, case):
    lib = env.lib
    d = lib.dll
    base = case["base"]
    r, s, m, Q, meta = build_triple(base)
    classes = ["base:" + base["kind"]]
    consistent = base["kind"] != "boundary"     # the triple satisfies the equation by construction
    if consistent and not case["muts"]:
        if not ecdsa.verify_eq(r, s, m, Q):
            raise RuntimeError("reference inconsistent: constructed triple does not satisfy the equation")
    for mu in case["muts"]:
        k, a = mu["kind"], mu["a"]
        classes.append("mut:" + k)
        if k == "bitflip":
            v = (r << 256 | s) ^ (1 << a)
            r, s = v >> 256, v & M256
        elif k == "r0":
            r = 0
        elif k == "s0":
            s = 0
        elif k == "swap":
            r, s = s, r
        elif k == "negkey":
            Q = ec.neg(Q)
        elif k == "otherkey":
            Q = ec.mulg(a + 2)
        elif k == "othermsg":
            m ^= 1 << (a % 256)
        elif k == "msg_pm_n":
            if m + N <= M256:
                m += N
                classes.append("msg+n")
            elif m >= N:
                m -= N
                classes.append("msg-n")
        elif k == "s_neg":
            s = (N - s) % N if s < N else s
        elif k == "r_plus_n":
            if r + N <= M256:
                r += N
        elif k == "s_plus_n":
            if s + N <= M256:
                s += N
        elif k == "r_minus":
            r = (r - 1) % N if r < N else r
        elif k == "s_pm1":
            s = (s + (1 if a & 1 else N - 1)) % N if s < N else s
    msg32 = b32(m)
    if m >= N:
        classes.append("msg>=n")
    lib.reset()
    pk = lib.pubkey_from_point(Q)
    rp, sig = lib.sig_parse_compact(b32(r) + b32(s))
    in_range = r < N and s < N
    env.require(rp == (1 if in_range else 0), "parse_compact returned %d for r<n=%s s<n=%s" % (rp, r < N, s < N))
    got = lib.ecdsa_verify(sig, msg32, pk)
    if not in_range:
        env.require(got == 0, "object left by a failed parse_compact verifies")
        return True, classes + ["out_of_range", "reject"]
    expect = ecdsa.verify(r, s, msg32, Q)
    eq = expect or (HALF < s < N and ecdsa.verify_eq(r, s, m, Q))
    xr = meta.get("xR")
    tag = "accept" if expect else "reject"
    near_half = abs(s - HALF) <= 1 or abs(s - (HALF + 1)) <= 1
    # s shares its top 32*k bits with n/2 (k = 1..7) but is not one of the two exact boundary values: the limb-by-limb comparison decides in a lower limb
    if s not in (HALF, HALF + 1):
        k = 0
        while k < 7 and (s >> (224 - 32 * k)) == (HALF >> (224 - 32 * k)):
            k += 1
        if k >= 4:
            side = "high" if s > HALF else "low"
            classes.append("s~half/k%d:%s:%s" % (k, side, tag))
            classes.append("s~half:%s:%s" % (side, "eq_holds" if eq else "eq_fails"))
    if r != P - N and (r >> 64) == ((P - N) >> 64):
        classes.append("r~p-n")
    if s == HALF:
        classes.append("s=half:" + tag)
    if s == HALF + 1:
        classes.append("s=half+1:" + tag)
    if xr is not None and xr >= N and not case["muts"]:
        classes.append("Rx>=n:" + tag)
    if r < P - N:
        classes.append("r<p-n:" + tag)
    if meta.get("high_twin") and not case["muts"]:
        classes.append("high_twin")
    env.require(got == (1 if expect else 0), "ecdsa_verify returned %d, the specification says %d" % (got, expect),
                r=hex(r), s=hex(s), m32=msg32.hex(), Q=ec.ser33(Q).hex(), equation_holds=bool(eq), s_low=s <= HALF)
    classes.append(tag)
    # normalize: 1 iff s > n/2; the normalized form verifies iff the equation holds
    nout = buf(64)
    nr = d.secp256k1_ecdsa_signature_normalize(lib.ctx, nout, sig)
    env.require(nr == (1 if s > HALF else 0), "signature_normalize returned %d for s %s n/2" % (nr, ">" if s > HALF else "<="), s=hex(s))
    ns_ = N - s if s > HALF else s
    env.require(lib.sig_serialize_compact(nout) == b32(r) + b32(ns_), "signature_normalize output is not (r, min(s, n-s))")
    gotn = lib.ecdsa_verify(nout, msg32, pk)
    env.require(gotn == (1 if eq else 0), "normalized signature verifies=%d, the equation says %d" % (gotn, eq), r=hex(r), s=hex(s))
    if eq and not expect:
        classes.append("high_s_equation_holds")
    # the same object through DER must behave identically
    rs, dbytes, dl = lib.sig_serialize_der(sig, 80)
    env.require(rs == 1 and dbytes == der.serialize(r, s), "DER serialisation of the object differs from the canonical DER of (r,s)")
    rp2, sig2 = lib.sig_parse_der(dbytes)
    env.require(rp2 == 1 and lib.ecdsa_verify(sig2, msg32, pk) == got, "the DER round trip of the signature verifies differently")
    # ---- recovery with every recovery id
    rec_hi_ok = False
    for recid in range(4):
        rsig = buf(65)
        env.require(d.secp256k1_ecdsa_recoverable_signature_parse_compact(lib.ctx, rsig, b32(r) + b32(s), c_int(recid)) == 1, "recoverable parse_compact rejected in-range (r,s)")
        rpk = buf(64, b"\x55" * 64)
        rr = d.secp256k1_ecdsa_recover(lib.ctx, rpk, rsig, msg32)
        refQ = ecdsa.recover(r, s, recid, msg32)
        env.require(rr == (1 if refQ is not None else 0), "ecdsa_recover returned %d for recid %d, reference says %s" % (rr, recid, "a key" if refQ else "no key"),
                    r=hex(r), s=hex(s), m32=msg32.hex())
        if rr == 1:
            env.require(lib.pubkey_serialize(rpk, compressed=False) == ec.ser65(refQ), "ecdsa_recover returned a different key than the reference for recid %d" % recid,
                        r=hex(r), s=hex(s), m32=msg32.hex(), ref=ec.ser33(refQ).hex())
            # documented: a recovered key verifies the normalized signature
            env.require(lib.ecdsa_verify(nout, msg32, rpk) == 1, "recovered key does not verify the normalized signature (recid %d)" % recid)
            classes.append("rec_ok")
            if recid >= 2:
                rec_hi_ok = True
                classes.append("rec2_ok")
        else:
            classes.append("rec_fail")
            if recid >= 2 and r >= P - N:
                classes.append("rec2_fail_range")
    if consistent and not case["muts"]:
        if ecdsa.recover(r, s, meta["recid"], msg32) != Q:
            raise RuntimeError("reference inconsistent: recovery does not return the constructed key")
        classes.append("rec_true_key")
    env.require(lib.illegal() == 0 and lib.errors() == 0, "callback fired during verification / recovery: " + lib.cbmsg())
    limbish = any(c.startswith(("s~half", "r~p-n")) for c in classes)
    nontrivial = m >= N or near_half or limbish or (xr is not None and xr >= N) or bool(case["muts"]) or rec_hi_ok
    return nontrivial, classes


def verify_case_cfg():
    return verify_case(limb_share=5)


OTHER = {"quick": ["int64", "struct"], "thorough": ["int64", "struct"]}
BASE = {"quick": ["prod", "vsan"], "thorough": ["prod", "vsan"]}
_SIGN_COVER = ["msg>=n", "key_invalid", "src:fail", "retried", "s0_retry", "sign_ok", "sign_fail", "key~n:valid", "key~n:invalid", "msg~n"]
_VERIFY_COVER = ["Rx>=n:accept", "s=half:accept", "s=half+1:reject", "msg>=n", "rec2_ok", "rec2_fail_range", "high_twin", "accept", "reject",
                 "msg+n", "high_s_equation_holds", "out_of_range",
                 # valid signatures whose s equals n/2 on the top 4 / 5 / 6 / 7 32-bit limbs and lies above resp. below it
                 "s~half:high:eq_holds", "s~half:low:eq_holds", "s~half/k4:high:reject", "s~half/k5:high:reject", "s~half/k6:high:reject", "s~half/k7:high:reject",
                 "s~half/k4:low:accept", "s~half/k5:low:accept", "s~half/k6:low:accept", "s~half/k7:low:accept", "r~p-n"]
# The property quantifies over build configurations: the 8x32 / 10x26 (int64) and int128-struct builds run a smaller, limb-prefix-heavy share in the quick tier already.
# The sanitizer build has its own, smaller tests with few long shards: a vsan worker costs ~25 CPU-s before its first case and ~10x per case (ASan-preloaded interpreter).
PRODONLY = {"quick": ["prod"], "thorough": ["prod"]}
SAN = {"quick": ["vsan"], "thorough": ["vsan"]}
_CORE_VERIFY = ["Rx>=n:accept", "s=half:accept", "s=half+1:reject", "rec2_ok", "accept", "reject", "s~half:high:eq_holds", "s~half:low:eq_holds"]
_LIMB_VERIFY = ["s~half/k4:high:reject", "s~half/k5:high:reject", "s~half/k6:high:reject", "s~half/k7:high:reject",
                "s~half/k4:low:accept", "s~half/k5:low:accept", "s~half/k6:low:accept", "s~half/k7:low:accept"]
TESTS = [
    Test("sign", sign_case, run_sign, quick=4000, thorough=60000, cfgs=PRODONLY, must_cover=_SIGN_COVER),
    Test("verify", verify_case, run_verify, quick=6000, thorough=100000, cfgs=PRODONLY, must_cover=_VERIFY_COVER),
    Test("sign_san", sign_case, run_sign, quick=600, thorough=20000, cfgs=SAN, max_workers=2, must_cover=["msg>=n", "key_invalid", "retried", "sign_ok", "sign_fail"]),
    Test("verify_san", verify_case_cfg, run_verify, quick=900, thorough=30000, cfgs=SAN, max_workers=6, must_cover=_CORE_VERIFY),
    Test("sign_cfg", sign_case, run_sign, quick=500, thorough=40000, cfgs=OTHER, must_cover=["msg>=n", "key_invalid", "retried", "sign_ok", "sign_fail", "key~n:valid", "msg~n"]),
    Test("verify_cfg", verify_case_cfg, run_verify, quick=1500, thorough=60000, cfgs=OTHER, must_cover=_CORE_VERIFY + _LIMB_VERIFY),
]
