"""C04 — secret-key and public-key operations commute (tweak algebra, combine, x-only / keypair / Taproot tweaks, cmp and sort)."""
import ctypes
from ctypes import c_size_t, c_int, byref

from hypothesis import strategies as st

from pyref import ec, keys as K
from vf import gens, kgens
from vf.core import Test
from vf.lib import buf, ptr_array

RULE = ("cases: (a) histories of up to 40 operations {tweak_add, tweak_mul, negate, xonly_tweak_add (+tweak_add_check on the true pair and on altered "
        "pairs), keypair_xonly_tweak_add, keypair_create, to_xonly, invalid_key} applied to one key on the secret side, the public side and an "
        "integer model, tweaks chosen relative to the current key (-key, -key+-1, 1/key, n, n+1, 0, 1, 2^256-1) or from the 256-bit edge set; after "
        "every step pubkey_create(secret) == public object == model, every operation fails exactly in the documented cases and then leaves an "
        "unusable output; (b) ec_pubkey_combine over lists of 1..200 keys with duplicates, cancelling pairs at arbitrary positions, cancelling "
        "prefixes, total sum infinity; (c) ec_pubkey_cmp on pairs and ec_pubkey_sort on lists of 0..200 pointers (equal keys in distinct objects, "
        "aliased pointers, P/-P, shared-prefix x coordinates). non-trivial = history contains a failing operation or >= 3 operations of >= 2 kinds; "
        "list has a duplicate, a cancelling pair or more than 40 entries")
ASSUMPTIONS = ["pyref.keys / pyref.ec are a correct model of the documented key algebra (selftests: BIP-340 key vectors, algebraic identities)",
               "objects handed to consumers come from successful constructors / parsers; invalidated outputs are only probed with "
               "ec_seckey_verify and ec_pubkey_serialize (whose documented reaction to an invalid object is the illegal callback and return 0)"]

N, P = ec.N, ec.P
M256 = gens.M256


# ------------------------------------------------------------------ thin API access
class Api:
    def __init__(self, env):
        self.env = env
        self.lib = env.lib
        self.d = env.lib.dll
        self.ctx = env.lib.ctx

    def quiet(self, what):
        lib = self.lib
        self.env.require(lib.illegal() == 0 and lib.errors() == 0, "callback fired during %s: %s" % (what, lib.cbmsg()))

    def ser(self, pk):
        return self.lib.pubkey_serialize(pk, compressed=False)

    def seckey_verify(self, b):
        return self.d.secp256k1_ec_seckey_verify(self.ctx, bytes(b))

    def unusable_seckey(self, sec, what):
        """after a failed operation the 32-byte output must not be a usable secret key"""
        self.env.require(self.seckey_verify(sec.raw[:32]) == 0, "%s failed but left a usable secret key in the output" % what, out=sec.raw[:32].hex())

    def unusable_pubkey(self, pk, what):
        """after a failed operation the public-key object must be refused by the API (illegal callback + return 0)"""
        lib = self.lib
        self.quiet(what)
        lib.reset()
        s = lib.pubkey_serialize(pk, compressed=True)
        ill = lib.illegal()
        lib.reset()
        self.env.require(s is None, "%s failed but left a usable public key in the output" % what, out=s.hex() if s else None)
        self.env.require(ill == 1, "%s: serializing the invalidated output did not raise the illegal callback exactly once (%d)" % (what, ill))

    def unusable_keypair(self, kp, what):
        sec = buf(32, b"\xAA" * 32)
        pk = buf(64, b"\xAA" * 64)
        self.env.require(self.d.secp256k1_keypair_sec(self.ctx, sec, kp) == 1 and self.d.secp256k1_keypair_pub(self.ctx, pk, kp) == 1,
                         "keypair accessor failed")
        self.unusable_seckey(sec, what + " (keypair secret)")
        self.unusable_pubkey(pk, what + " (keypair public key)")

    def xonly_of(self, pk):
        xo = buf(64)
        par = c_int(-1)
        r = self.d.secp256k1_xonly_pubkey_from_pubkey(self.ctx, xo, byref(par), pk)
        self.env.require(r == 1, "xonly_pubkey_from_pubkey returned %d" % r)
        return xo, par.value

    def tweak_add_check(self, x32, parity, xo, tb):
        return self.d.secp256k1_xonly_pubkey_tweak_add_check(self.ctx, bytes(x32), c_int(parity), xo, bytes(tb))


def b32(v):
    return int(v).to_bytes(32, "big")


def resolve(t, cur, xpt=None):
    """symbolic tweak -> integer in [0, 2^256), relative to the key `cur` the operation acts on"""
    if isinstance(t, int):
        return t
    if isinstance(t, list):             # ["tap", merkle_root_hex]: BIP-341 TapTweak of the internal key (x-only operations), else a plain hash
        root = bytes.fromhex(t[1])
        return K.taproot_tweak(xpt, root) if xpt is not None else ec.b2i(ec.tagged_hash("TapTweak", b32(cur) + root))
    if t == "alias_self":               # the tweak argument IS the 32-byte key buffer (value at call time = the key)
        return cur
    if t == "neg_cur":
        return N - cur
    if t == "neg_cur_p1":
        return (N - cur + 1) % N
    if t == "neg_cur_m1":
        return (N - cur - 1) % N
    if t == "neg_cur_plus_n":           # an overflowing representative of -cur (only when it fits): must be refused as >= n
        v = 2 * N - cur
        return v if v <= M256 else N
    if t == "inv_cur":
        return pow(cur, -1, N)
    if t == "neg_inv_cur":
        return N - pow(cur, -1, N)
    return {"n": N, "n_p1": N + 1, "n_m1": N - 1, "max": M256, "zero": 0, "one": 1, "two": 2, "half": (N + 1) // 2}[t]


SYMBOLIC = ["alias_self", "alias_self", "neg_cur", "neg_cur", "neg_cur_p1", "neg_cur_m1", "neg_cur_plus_n", "inv_cur", "neg_inv_cur", "n", "n", "n_p1", "n_m1", "max", "zero",
            "zero", "one", "two", "half"]
tweak_st = st.one_of(st.sampled_from(SYMBOLIC), gens.u256_edge, gens.seckey_valid, st.integers(0, M256),
                     st.sampled_from(["", "00" * 32, "ab" * 32]).map(lambda r: ["tap", r]))
INVALID_KEYS = ["zero", "n", "n_p1", "max"]

_op = st.one_of(
    st.builds(lambda t, ip: {"op": "tweak_add", "t": t, "inplace": ip}, tweak_st, st.booleans()),
    st.builds(lambda t, ip: {"op": "tweak_add", "t": t, "inplace": ip}, tweak_st, st.booleans()),
    st.builds(lambda t, ip: {"op": "tweak_mul", "t": t, "inplace": ip}, tweak_st, st.booleans()),
    st.builds(lambda t, ip: {"op": "tweak_mul", "t": t, "inplace": ip}, tweak_st, st.booleans()),
    st.builds(lambda ip: {"op": "negate", "inplace": ip}, st.booleans()),
    st.builds(lambda t, c: {"op": "xonly_tweak_add", "t": t, "chk": c}, tweak_st, st.integers(0, 127)),
    st.builds(lambda t, c: {"op": "xonly_tweak_add", "t": t, "chk": c}, tweak_st, st.integers(0, 127)),
    st.builds(lambda t: {"op": "keypair_xonly_tweak_add", "t": t}, tweak_st),
    st.builds(lambda t: {"op": "keypair_xonly_tweak_add", "t": t}, tweak_st),
    st.just({"op": "keypair_create"}),
    st.just({"op": "to_xonly"}),
    st.builds(lambda k, t: {"op": "invalid_key", "k": k, "t": t},
              st.one_of(st.sampled_from(INVALID_KEYS), st.integers(N, M256)), st.one_of(st.sampled_from(["one", "two", "n_m1", "zero"]), gens.seckey_valid)),
)


@st.composite
def history_case(draw):
    n = draw(st.one_of(st.integers(0, 6), st.integers(3, 16), st.integers(10, 40)))
    return {"sk": draw(gens.seckey_valid), "ops": [draw(_op) for _ in range(n)]}


def add_reason(t, res):
    return "t>=n" if t >= N else ("result0" if res is None else None)


def run_history(env, case):
    api = Api(env)
    lib, d, ctx = api.lib, api.d, api.ctx
    lib.reset()
    sk = case["sk"]
    skb = b32(sk)
    r, pk = lib.pubkey_create(skb)
    env.require(r == 1, "pubkey_create refused a valid key", sk=hex(sk))
    classes = set()
    nfail = 0
    kinds = set()

    def invariant(step):
        r2, pk2 = lib.pubkey_create(skb)
        env.require(r2 == 1, "pubkey_create refused the secret key after step %s" % step, sk=skb.hex())
        a, b = api.ser(pk2), api.ser(pk)
        m = ec.ser65(ec.mulg(sk))
        env.require(a is not None and b is not None, "valid state does not serialize after step %s" % step)
        env.require(a == m, "secret side: pubkey_create(secret) differs from the model after step %s" % step, lib=a.hex(), model=m.hex())
        env.require(b == m, "public side: public key differs from the model after step %s" % step, lib=b.hex(), model=m.hex())
        env.require(ec.b2i(skb) == sk, "secret bytes differ from the model after step %s" % step)
        api.quiet("step %s" % step)

    invariant("init")
    for i, op in enumerate(case["ops"]):
        name = op["op"]
        kinds.add(name)
        step = "%d:%s" % (i, name)
        classes.add("op:" + name)
        if name in ("tweak_add", "tweak_mul"):
            t = resolve(op["t"], sk)
            tb = b32(t)
            exp = (K.seckey_tweak_add if name == "tweak_add" else K.seckey_tweak_mul)(sk, t)
            sec = buf(32, skb)
            # aliasing: the tweak argument is the key buffer itself (nothing in the API forbids it; the result must be the one for the
            # values held at call time); in place: the public side works on the live object instead of a byte copy of it
            alias = op["t"] == "alias_self"
            tsec = sec if alias else tb
            if alias:
                classes.add("alias:tweak_is_key")
            inplace = bool(op.get("inplace")) and exp is not None
            pk2 = pk if inplace else buf(64, pk.raw)
            if inplace:
                classes.add("alias:inplace")
            if name == "tweak_add":
                r1 = d.secp256k1_ec_seckey_tweak_add(ctx, sec, tsec)
                r2 = d.secp256k1_ec_pubkey_tweak_add(ctx, pk2, tb)
                reason = add_reason(t, exp)
            else:
                r1 = d.secp256k1_ec_seckey_tweak_mul(ctx, sec, tsec)
                r2 = d.secp256k1_ec_pubkey_tweak_mul(ctx, pk2, tb)
                reason = "t>=n" if t >= N else ("zero" if t == 0 else None)
            want = 1 if exp is not None else 0
            env.require(r1 == want, "ec_seckey_%s returned %d, documented result %d (%s)" % (name, r1, want, reason), sk=hex(sk), tweak=hex(t))
            env.require(r2 == want, "ec_pubkey_%s returned %d, documented result %d (%s)" % (name, r2, want, reason), sk=hex(sk), tweak=hex(t))
            if exp is None:
                nfail += 1
                classes.add("fail:%s:%s" % (name, reason))
                api.unusable_seckey(sec, "ec_seckey_" + name)
                api.unusable_pubkey(pk2, "ec_pubkey_" + name)
                continue
            sk, skb, pk = exp, sec.raw[:32], pk2
            if sk in (1, N - 1):
                classes.add("result_pm1")
        elif name == "negate":
            sec = buf(32, skb)
            pk2 = pk if op.get("inplace") else buf(64, pk.raw)
            if op.get("inplace"):
                classes.add("alias:inplace")
            r1 = d.secp256k1_ec_seckey_negate(ctx, sec)
            r2 = d.secp256k1_ec_pubkey_negate(ctx, pk2)
            env.require(r1 == 1 and r2 == 1, "negate failed on a valid key (%d, %d)" % (r1, r2))
            sk, skb, pk = K.seckey_negate(sk), sec.raw[:32], pk2
        elif name == "to_xonly":
            pt = ec.mulg(sk)
            xpt, par = K.xonly_from_point(pt)
            xo, lpar = api.xonly_of(pk)
            x32 = lib.xonly_serialize(xo)
            env.require(x32 == ec.i2b(xpt[0]), "x-only serialization differs from the model", lib=x32.hex() if x32 else None)
            env.require(lpar == par, "xonly_pubkey_from_pubkey parity %d, model %d" % (lpar, par))
            rp, xo2 = lib.xonly_parse(x32)
            env.require(rp == 1 and lib.xonly_serialize(xo2) == x32, "x-only key does not survive serialize/parse")
            env.require(d.secp256k1_xonly_pubkey_cmp(ctx, xo, xo2) == 0, "xonly_pubkey_cmp of equal keys != 0")
            classes.add("parity:%d" % par)
        elif name == "keypair_create":
            rk, kp = lib.keypair_create(skb)
            env.require(rk == 1, "keypair_create refused a valid key")
            sec = buf(32)
            pkk = buf(64)
            env.require(d.secp256k1_keypair_sec(ctx, sec, kp) == 1 and sec.raw[:32] == skb, "keypair_sec differs from the secret key")
            env.require(d.secp256k1_keypair_pub(ctx, pkk, kp) == 1 and api.ser(pkk) == api.ser(pk), "keypair_pub differs from the public key")
            xo = buf(64)
            par = c_int(-1)
            env.require(d.secp256k1_keypair_xonly_pub(ctx, xo, byref(par), kp) == 1, "keypair_xonly_pub failed")
            xpt, mpar = K.xonly_from_point(ec.mulg(sk))
            env.require(lib.xonly_serialize(xo) == ec.i2b(xpt[0]) and par.value == mpar, "keypair_xonly_pub differs from the model")
        elif name == "xonly_tweak_add":
            pt = ec.mulg(sk)
            xpt, par = K.xonly_from_point(pt)
            dsk = N - sk if par else sk
            t = resolve(op["t"], dsk, xpt)
            tb = b32(t)
            classes.add("parity:%d" % par)
            if isinstance(op["t"], list):
                classes.add("taptweak")
            # public side
            xo, lpar = api.xonly_of(pk)
            env.require(lpar == par, "xonly_pubkey_from_pubkey parity %d, model %d" % (lpar, par))
            out = buf(64, b"\xAA" * 64)
            r2 = d.secp256k1_xonly_pubkey_tweak_add(ctx, out, xo, tb)
            # secret side: normalise to the even-Y key, then the plain additive tweak
            sec = buf(32, skb)
            if par:
                env.require(d.secp256k1_ec_seckey_negate(ctx, sec) == 1, "seckey_negate failed on a valid key")
            if op["t"] == "alias_self":
                classes.add("alias:tweak_is_key")
                r1 = d.secp256k1_ec_seckey_tweak_add(ctx, sec, sec)
            else:
                r1 = d.secp256k1_ec_seckey_tweak_add(ctx, sec, tb)
            q = K.xonly_tweak_add(xpt, t)
            want = 1 if q is not None else 0
            reason = add_reason(t, q)
            env.require(r2 == want, "xonly_pubkey_tweak_add returned %d, documented result %d (%s)" % (r2, want, reason), sk=hex(sk), tweak=hex(t))
            env.require(r1 == want, "seckey_tweak_add on the normalised key returned %d, documented %d (%s)" % (r1, want, reason), sk=hex(sk), tweak=hex(t))
            if q is None:
                nfail += 1
                classes.add("fail:xonly_tweak_add:%s" % reason)
                api.unusable_pubkey(out, "xonly_pubkey_tweak_add")
                api.unusable_seckey(sec, "ec_seckey_tweak_add")
                rc = api.tweak_add_check(ec.i2b(xpt[0]), 0, xo, tb)
                env.require(rc == 0, "tweak_add_check accepted although the tweak is invalid for this key (%s)" % reason)
                continue
            qx, qpar = ec.i2b(q[0]), q[1] & 1
            env.require(api.tweak_add_check(qx, qpar, xo, tb) == 1, "tweak_add_check rejected the pair that the tweak produces", tweak=hex(t))
            # altered pairs: the model decides (accept exactly the produced pair)
            chk = op.get("chk", 0)
            variants = []
            if chk & 1:
                variants.append(("flip_parity", qx, 1 - qpar, xpt, xo, t))
            if chk & 2:
                variants.append(("x_plus_1", b32((q[0] + 1) & M256), qpar, xpt, xo, t))
            if chk & 4:
                variants.append(("x_minus_1", b32((q[0] - 1) & M256), qpar, xpt, xo, t))
            if chk & 8:
                variants.append(("other_tweak", qx, qpar, xpt, xo, (t + 1) % N))
            if chk & 16:
                opt, _ = K.xonly_from_point(ec.mulg((sk % (N - 1)) + 1))
                rp, oxo = lib.xonly_parse(ec.i2b(opt[0]))
                env.require(rp == 1, "xonly_parse refused a valid x")
                variants.append(("other_internal", qx, qpar, opt, oxo, t))
            if chk & 32:
                variants.append(("internal_as_output", ec.i2b(xpt[0]), 0, xpt, xo, t))
            if chk & 64:
                # the two 32-byte inputs of the check are the SAME buffer (tweaked_pubkey32 aliases tweak32)
                shared = buf(32, tb)
                wantc = 1 if K.xonly_tweak_add_check(tb, qpar, xpt, t) else 0
                got = d.secp256k1_xonly_pubkey_tweak_add_check(ctx, shared, c_int(qpar), xo, shared)
                env.require(got == wantc, "tweak_add_check with tweaked_pubkey32 aliasing tweak32 returned %d, model %d" % (got, wantc), tweak=hex(t))
                classes.add("alias:check_x_is_tweak")
            for vn, vx, vpar, vint, vxo, vt in variants:
                wantc = 1 if K.xonly_tweak_add_check(vx, vpar, vint, vt) else 0
                got = api.tweak_add_check(vx, vpar, vxo, b32(vt))
                env.require(got == wantc, "tweak_add_check(%s) returned %d, model %d" % (vn, got, wantc), tweak=hex(vt))
                classes.add("check:%s:%d" % (vn, wantc))
            sk, skb, pk = K.seckey_tweak_add(dsk, t), sec.raw[:32], out
            classes.add("xonly_ok_par%d" % par)
        elif name == "keypair_xonly_tweak_add":
            pt = ec.mulg(sk)
            xpt, par = K.xonly_from_point(pt)
            dsk = N - sk if par else sk
            t = resolve(op["t"], dsk, xpt)
            tb = b32(t)
            classes.add("parity:%d" % par)
            skbuf = buf(32, skb)
            kp = buf(96)
            rk = d.secp256k1_keypair_create(ctx, kp, skbuf)
            env.require(rk == 1, "keypair_create refused a valid key")
            xo = buf(64)
            lpar = c_int(-1)
            env.require(d.secp256k1_keypair_xonly_pub(ctx, xo, byref(lpar), kp) == 1 and lpar.value == par, "keypair_xonly_pub parity differs from the model")
            out = buf(64, b"\xAA" * 64)
            r2 = d.secp256k1_xonly_pubkey_tweak_add(ctx, out, xo, tb)
            if op["t"] == "alias_self" and not par:
                classes.add("alias:tweak_is_seckey_buffer")
                r1 = d.secp256k1_keypair_xonly_tweak_add(ctx, kp, skbuf)
            else:
                r1 = d.secp256k1_keypair_xonly_tweak_add(ctx, kp, tb)
            exp = K.keypair_xonly_tweak_add(sk, t)
            want = 1 if exp is not None else 0
            reason = add_reason(t, exp)
            env.require(r1 == want, "keypair_xonly_tweak_add returned %d, documented result %d (%s)" % (r1, want, reason), sk=hex(sk), tweak=hex(t))
            env.require(r2 == want, "xonly_pubkey_tweak_add returned %d, documented result %d (%s)" % (r2, want, reason), sk=hex(sk), tweak=hex(t))
            if exp is None:
                nfail += 1
                classes.add("fail:keypair_xonly_tweak_add:%s" % reason)
                if par and reason == "result0":
                    classes.add("fail:keypair_result0_odd")
                api.unusable_keypair(kp, "keypair_xonly_tweak_add")
                api.unusable_pubkey(out, "xonly_pubkey_tweak_add")
                continue
            sec = buf(32)
            pkk = buf(64)
            env.require(d.secp256k1_keypair_sec(ctx, sec, kp) == 1 and d.secp256k1_keypair_pub(ctx, pkk, kp) == 1, "keypair accessor failed")
            env.require(sec.raw[:32] == b32(exp), "keypair_xonly_tweak_add: secret key differs from the model (parity of the internal key %d)" % par,
                        lib=sec.raw[:32].hex(), model=hex(exp))
            env.require(api.ser(pkk) == api.ser(out), "keypair_pub after the tweak differs from keypair_xonly_pub + xonly_pubkey_tweak_add")
            nx = buf(64)
            npar = c_int(-1)
            env.require(d.secp256k1_keypair_xonly_pub(ctx, nx, byref(npar), kp) == 1, "keypair_xonly_pub failed after the tweak")
            nxpt, mpar = K.xonly_from_point(ec.mulg(exp))
            env.require(lib.xonly_serialize(nx) == ec.i2b(nxpt[0]) and npar.value == mpar, "tweaked keypair: x-only key / parity differ from the model")
            env.require(api.tweak_add_check(ec.i2b(nxpt[0]), mpar, xo, tb) == 1, "tweak_add_check rejected the tweaked keypair's (x, parity)")
            env.require(api.tweak_add_check(ec.i2b(nxpt[0]), 1 - mpar, xo, tb) == 0, "tweak_add_check accepted the wrong parity")
            sk, skb, pk = exp, sec.raw[:32], pkk
            classes.add("keypair_ok_par%d" % par)
        elif name == "invalid_key":
            k = op["k"]
            kv = k if isinstance(k, int) else {"zero": 0, "n": N, "n_p1": N + 1, "max": M256}[k]
            kb = b32(kv)
            t = resolve(op["t"], sk)
            tb = b32(t)
            nfail += 1
            classes.add("invalid_key:" + (k if isinstance(k, str) else "big"))
            env.require(api.seckey_verify(kb) == 0, "seckey_verify accepted %s" % hex(kv))
            rr, pko = lib.pubkey_create(kb)
            env.require(rr == 0, "pubkey_create accepted the invalid key %s" % hex(kv))
            api.unusable_pubkey(pko, "ec_pubkey_create(invalid key)")
            rr, kpo = lib.keypair_create(kb)
            env.require(rr == 0, "keypair_create accepted the invalid key %s" % hex(kv))
            api.unusable_keypair(kpo, "keypair_create(invalid key)")
            for fn, args in (("negate", ()), ("tweak_add", (tb,)), ("tweak_mul", (tb,))):
                sec = buf(32, kb)
                rr = getattr(d, "secp256k1_ec_seckey_" + fn)(ctx, sec, *args)
                env.require(rr == 0, "ec_seckey_%s accepted the invalid key %s" % (fn, hex(kv)), tweak=hex(t))
                api.unusable_seckey(sec, "ec_seckey_%s(invalid key)" % fn)
            api.quiet(step)
            continue
        else:
            raise ValueError(name)
        invariant(step)
    classes.add("len:%s" % ("0" if not case["ops"] else "1-9" if len(case["ops"]) < 10 else "10-40"))
    if nfail:
        classes.add("has_failure")
    nontrivial = nfail > 0 or (len(case["ops"]) >= 3 and len(kinds) >= 2)
    return nontrivial, sorted(classes)


# ------------------------------------------------------------------ lists: combine, cmp, sort
def _n_list():
    return st.one_of(st.integers(1, 4), st.integers(2, 12), st.integers(5, 40), st.integers(41, 200), st.sampled_from([41, 64, 65, 127, 128, 199, 200]))


@st.composite
def combine_case(draw):
    """pool of base points + a list of signed 1-based indices (negative: the negated point)"""
    npool = draw(st.integers(1, 10))
    mode = draw(st.sampled_from(["plain", "plain", "all_equal", "pairs", "pairs_only", "total_zero", "prefix_zero", "dups"]))
    known = mode in ("total_zero", "prefix_zero")
    pool = [draw(kgens._k_spec if known else kgens.point_spec) for _ in range(npool)]
    n = draw(_n_list())
    idx = st.integers(1, npool)
    sidx = st.builds(lambda i, s: -i if s else i, idx, st.integers(0, 3).map(lambda v: v == 0))
    if mode == "all_equal":
        order = [draw(sidx)] * n
    elif mode == "pairs_only":
        order = []
        for _ in range(max(1, n // 2)):
            i = draw(idx)
            order[draw(st.integers(0, len(order))):0] = [i]
            order[draw(st.integers(0, len(order))):0] = [-i]
    else:
        order = [draw(sidx) for _ in range(n)]
        if mode == "pairs":
            for _ in range(draw(st.integers(1, 4))):
                i = draw(sidx)
                order[draw(st.integers(0, len(order))):0] = [i]
                order[draw(st.integers(0, len(order))):0] = [-i]
        elif mode == "dups":
            for _ in range(draw(st.integers(1, 4))):
                i = draw(sidx)
                order[draw(st.integers(0, len(order))):0] = [i] * draw(st.integers(2, 3))
        elif known:
            # make the whole list (total_zero) or a prefix of it (prefix_zero) sum to infinity by one compensating key
            cut = len(order) if mode == "total_zero" else draw(st.integers(1, len(order)))
            ssum = sum((1 if i > 0 else -1) * kgens.scalar_of(pool[abs(i) - 1]) for i in order[:cut]) % N
            if ssum:
                pool.append(["k", N - ssum])
                order[draw(st.integers(0, cut)):0] = [len(pool)]
    return {"pool": pool, "order": order[:200], "distinct": draw(st.sampled_from([0, 0, 1, 2]))}


def run_combine(env, case):
    api = Api(env)
    lib, d, ctx = api.lib, api.d, api.ctx
    lib.reset()
    base = [kgens.point_of(s) for s in case["pool"]]
    objs = {}
    pts = []
    ptrs = []
    for i in case["order"]:
        pt = base[abs(i) - 1] if i > 0 else ec.neg(base[abs(i) - 1])
        # distinct 0: one object per pool entry, repeated entries pass the SAME pointer several times; 1: every list entry its own object;
        # 2: alternate
        dm = case.get("distinct", 0)
        key = (i, len(pts)) if (dm == 1 or (dm == 2 and len(pts) % 2)) else (i, -1)
        if key not in objs:
            objs[key] = lib.pubkey_from_point(pt)
        pts.append(pt)
        ptrs.append(objs[key])
    n = len(pts)
    classes = ["n:%s" % ("1" if n == 1 else "2-40" if n <= 40 else "41-200")]
    addrs = [ctypes.addressof(o) for o in ptrs]
    if len(set(addrs)) < n:
        classes.append("aliased_pointer")
    if len({ec.ser33(q) for q in pts}) < len(set(addrs)):
        classes.append("equal_in_distinct_objects")
    out = buf(64, b"\xAA" * 64)
    r = d.secp256k1_ec_pubkey_combine(ctx, out, ptr_array(ptrs), c_size_t(n))
    exp = K.pubkey_combine(pts)
    # the running sum passes through infinity?
    acc = None
    through_inf = False
    for j, pt in enumerate(pts):
        acc = ec.add(acc, pt)
        if acc is None and j + 1 < n:
            through_inf = True
    env.require(acc == exp, "reference inconsistency in the sum")      # two summation orders/paths of the model agree
    want = 1 if exp is not None else 0
    env.require(r == want, "ec_pubkey_combine returned %d for %d keys, documented result %d" % (r, n, want))
    api.quiet("combine")
    if exp is None:
        classes.append("sum_infinity")
        api.unusable_pubkey(out, "ec_pubkey_combine")
    else:
        s = api.ser(out)
        env.require(s == ec.ser65(exp), "ec_pubkey_combine: sum differs from the group law", lib=s.hex() if s else None, model=ec.ser65(exp).hex())
        classes.append("sum_ok")
    if through_inf:
        classes.append("prefix_infinity")
    ks = [kgens.scalar_of(case["pool"][abs(i) - 1]) for i in case["order"]]
    if all(k is not None for k in ks) and n <= 64:
        ks = [k if i > 0 else N - k for k, i in zip(ks, case["order"])]
        tot = sum(ks) % N
        env.require((ec.mulg(tot) if tot else None) == exp, "reference inconsistency: sum of points != (sum of scalars)*G")
        pre = 0
        clean = True
        for k in ks:
            pre = (pre + k) % N
            clean = clean and pre != 0
        if clean:
            sec = buf(32, b32(ks[0]))
            for k in ks[1:]:
                env.require(d.secp256k1_ec_seckey_tweak_add(ctx, sec, b32(k)) == 1, "ec_seckey_tweak_add failed while summing secret keys with non-zero partial sums")
            env.require(sec.raw[:32] == b32(tot), "sum of the secret keys through ec_seckey_tweak_add differs from the model")
            rc, pkc = lib.pubkey_create(sec.raw[:32])
            env.require(rc == 1 and api.ser(pkc) == api.ser(out), "pubkey_create(sum of secret keys) != ec_pubkey_combine(public keys)")
            classes.append("secret_sum_checked")
    sers = [ec.ser33(p) for p in pts]
    xs = [p[0] for p in pts]
    dup = len(set(sers)) < n
    cancel = len(set(xs)) < len(set(sers))
    if dup:
        classes.append("duplicate")
    if cancel:
        classes.append("cancelling_pair")
    # inputs untouched
    for (i, _), o in objs.items():
        pt = base[abs(i) - 1] if i > 0 else ec.neg(base[abs(i) - 1])
        env.require(api.ser(o) == ec.ser65(pt), "ec_pubkey_combine modified an input key")
    return (dup or cancel or n > 40), classes


@st.composite
def sort_case(draw):
    npool = draw(st.one_of(st.integers(1, 6), st.integers(2, 40), st.integers(30, 64)))
    style = draw(st.sampled_from(["mixed", "mixed", "small_k", "tiny_x", "pm"]))
    pool = []
    while len(pool) < npool:
        if style == "small_k":
            s = ["k", draw(st.integers(1, 400))]
        elif style == "tiny_x":
            s = ["x", draw(st.integers(0, 4000)), draw(st.integers(0, 1))]
        else:
            s = draw(kgens.point_spec)
        pool.append(s)
        if style == "pm" or draw(st.integers(0, 7)) == 0:
            pool.append(["neg", s])                       # same x, other prefix byte
        if draw(st.integers(0, 9)) == 0:
            pool.append(s)                                # equal key in a distinct object
    pool = pool[:64]
    n = draw(st.one_of(st.sampled_from([0, 1, 2, 3, 2, 3]), st.integers(2, 12), st.integers(5, 40), st.integers(41, 200), st.integers(41, 200),
                       st.sampled_from([40, 41, 42, 64, 100, 128, 199, 200])))
    kind = draw(st.sampled_from(["random", "random", "random", "sorted", "reversed", "all_equal", "two_values"]))
    idx = st.integers(0, len(pool) - 1)
    if kind == "all_equal":
        order = [draw(idx)] * n
    elif kind == "two_values":
        a, b = draw(idx), draw(idx)
        order = [a if draw(st.booleans()) else b for _ in range(n)]
    else:
        order = [draw(idx) for _ in range(n)]
    pairs = [[draw(idx), draw(idx)] for _ in range(draw(st.integers(1, 8)))]
    return {"pool": pool, "order": order, "kind": kind, "pairs": pairs}


def sign(v):
    return (v > 0) - (v < 0)


def run_sort(env, case):
    api = Api(env)
    lib, d, ctx = api.lib, api.d, api.ctx
    lib.reset()
    pts = [kgens.point_of(s) for s in case["pool"]]
    keys = [ec.ser33(p) for p in pts]
    objs = [lib.pubkey_from_point(p) for p in pts]
    order = list(case["order"])
    if case["kind"] == "sorted":
        order.sort(key=lambda i: keys[i])
    elif case["kind"] == "reversed":
        order.sort(key=lambda i: keys[i], reverse=True)
    classes = ["kind:" + case["kind"]]
    # --- cmp
    for a, b in case["pairs"]:
        got = d.secp256k1_ec_pubkey_cmp(ctx, objs[a], objs[b])
        want = (keys[a] > keys[b]) - (keys[a] < keys[b])
        env.require(sign(got) == want, "ec_pubkey_cmp returned %d, lexicographic order of the compressed encodings says %d" % (got, want),
                    a=keys[a].hex(), b=keys[b].hex())
        classes.append("cmp:%d" % want)
        if want and keys[a][1:] == keys[b][1:]:
            classes.append("cmp:same_x")
        elif want and keys[a][:17] == keys[b][:17]:
            classes.append("cmp:shared_prefix")
    # --- sort
    n = len(order)
    addr = [ctypes.addressof(objs[i]) for i in order]
    key_of_addr = {ctypes.addressof(o): keys[i] for i, o in enumerate(objs)}
    arr = ptr_array([objs[i] for i in order])
    r = d.secp256k1_ec_pubkey_sort(ctx, arr, c_size_t(n))
    env.require(r == 1, "ec_pubkey_sort returned %d for %d valid keys" % (r, n))
    api.quiet("sort")
    after = [arr[i] for i in range(n)]
    env.require(sorted(after) == sorted(addr), "ec_pubkey_sort: output pointers are not a permutation of the input pointers", n=n)
    out_keys = [key_of_addr[a] for a in after]
    for i in range(1, n):
        env.require(out_keys[i - 1] <= out_keys[i], "ec_pubkey_sort: output not sorted at position %d of %d" % (i, n),
                    prev=out_keys[i - 1].hex(), cur=out_keys[i].hex())
    env.require(out_keys == sorted(keys[i] for i in order), "ec_pubkey_sort: key sequence differs from the sorted input")
    for i, o in enumerate(objs):
        env.require(lib.pubkey_serialize(o) == keys[i], "ec_pubkey_sort / cmp modified a key object")
    in_keys = [keys[i] for i in order]
    dup = len(set(in_keys)) < n
    alias = len(set(addr)) < n
    distinct_equal = len(set(in_keys)) < len(set(addr))
    pm = len({k[1:] for k in in_keys}) < len(set(in_keys))
    classes.append("n:%s" % ("0" if n == 0 else "1" if n == 1 else "2-40" if n <= 40 else "41-200"))
    for flag, name in ((dup, "duplicate"), (alias, "aliased_pointer"), (distinct_equal, "equal_in_distinct_objects"), (pm, "P_and_minus_P")):
        if flag:
            classes.append(name)
    if n > 1 and in_keys != out_keys:
        classes.append("reordered")
    return (dup or pm or n > 40), classes


# ------------------------------------------------------------------ backward construction: choose the OUTPUT key, solve for the input
# A result with a tiny coordinate cannot be reached by choosing scalars, but it can be constructed: take a curve point Q with x < 2^256 - p
# (so that x + p still fits in 32 bytes) or with tiny y, pick the tweak, and solve for the input key with reference arithmetic.
XP_LIMIT = M256 - P          # x <= this  <=>  x + p is a 32-byte string


def cube_root(a):
    """p = 7 mod 9: a^((p+2)/9) is a cube root of a when a is a cube"""
    r = pow(a % P, (P + 2) // 9, P)
    return r if pow(r, 3, P) == a % P else None


def tiny_point(kind, v0, odd):
    """kind 'x': smallest x >= v0 (<= XP_LIMIT) on the curve; kind 'y': smallest y >= v0 with y^2 - 7 a cube.  y parity `odd` for kind x."""
    if kind == "x":
        x = v0 % (XP_LIMIT - 64)
        while True:
            pt = ec.lift_x(x, odd)
            if pt is not None:
                return pt
            x += 1
    y = max(1, v0 % (1 << 32))
    while True:
        x = cube_root(y * y - 7)
        if x is not None:
            return (x * pow(ec.BETA, odd, P) % P, y)        # any of the three cube roots
        y += 1


@st.composite
def backward_case(draw):
    return {"kind": draw(st.sampled_from(["x", "x", "x", "y"])), "v0": draw(st.one_of(st.integers(0, 400), st.integers(0, XP_LIMIT), st.sampled_from([XP_LIMIT - 70, 0, 1]))),
            "odd": draw(st.integers(0, 2)), "t": draw(st.one_of(gens.seckey_valid, st.integers(1, N - 1), st.sampled_from([1, 2, N - 1]))),
            "r": draw(gens.seckey_valid)}


def run_backward(env, case):
    api = Api(env)
    lib, d, ctx = api.lib, api.d, api.ctx
    lib.reset()
    Q = tiny_point(case["kind"], case["v0"], case["odd"] if case["kind"] == "y" else case["odd"] & 1)
    env.require(ec.on_curve(Q), "reference inconsistency: constructed point not on the curve")
    classes = ["tiny:" + case["kind"]]
    q65, q33 = ec.ser65(Q), ec.ser33(Q)
    qpar = Q[1] & 1
    # --- Taproot: internal key P = Q - t*G with even Y (retry t), then tweak forward
    t = case["t"]
    while True:
        Pi = ec.sub(Q, ec.mulg(t))
        if Pi is not None and Pi[1] % 2 == 0:
            break
        t = t % (N - 1) + 1
    tb = b32(t)
    rp, xo = lib.xonly_parse(ec.i2b(Pi[0]))
    env.require(rp == 1, "xonly_pubkey_parse refused a valid x coordinate")
    out = buf(64, b"\xAA" * 64)
    env.require(d.secp256k1_xonly_pubkey_tweak_add(ctx, out, xo, tb) == 1, "xonly_pubkey_tweak_add failed for a valid internal key and tweak")
    env.require(api.ser(out) == q65 and lib.pubkey_serialize(out) == q33, "xonly_pubkey_tweak_add: result is not the canonical encoding of internal + t*G",
                lib=(api.ser(out) or b"").hex(), model=q65.hex())
    oxo, opar = api.xonly_of(out)
    env.require(lib.xonly_serialize(oxo) == ec.i2b(Q[0]) and opar == qpar, "x-only form of the tweaked key is not the canonical (x, parity)")
    env.require(api.tweak_add_check(ec.i2b(Q[0]), qpar, xo, tb) == 1, "tweak_add_check rejected the canonical (x, parity) of the tweaked key", x=hex(Q[0]))
    env.require(api.tweak_add_check(ec.i2b(Q[0]), 1 - qpar, xo, tb) == 0, "tweak_add_check accepted the wrong parity")
    if Q[0] <= XP_LIMIT:
        for par in (qpar, 1 - qpar):
            got = api.tweak_add_check(b32(Q[0] + P), par, xo, tb)
            env.require(got == 0, "tweak_add_check accepted the non-canonical string x + p for the tweaked key (x = %s)" % hex(Q[0]), parity=par, tweak=hex(t))
        classes.append("check:noncanonical_x_plus_p")
    # keypair path is impossible (no secret key); full-key additive tweak
    pk = lib.pubkey_from_point(Pi)
    env.require(d.secp256k1_ec_pubkey_tweak_add(ctx, pk, tb) == 1 and api.ser(pk) == q65, "ec_pubkey_tweak_add: result is not the canonical encoding of P + t*G")
    # --- multiplicative tweak: P = t^-1 * Q
    Pm = ec.mul(pow(t, -1, N), Q)
    pk = lib.pubkey_from_point(Pm)
    env.require(d.secp256k1_ec_pubkey_tweak_mul(ctx, pk, tb) == 1 and api.ser(pk) == q65 and lib.pubkey_serialize(pk) == q33,
                "ec_pubkey_tweak_mul: result is not the canonical encoding of t*P")
    # --- combine: (Q - R) + R, negate: -(-Q)
    R = ec.mulg(case["r"])
    A = ec.sub(Q, R)
    if A is not None:
        o1, o2 = lib.pubkey_from_point(A), lib.pubkey_from_point(R)
        out = buf(64)
        env.require(d.secp256k1_ec_pubkey_combine(ctx, out, ptr_array([o1, o2]), c_size_t(2)) == 1 and api.ser(out) == q65,
                    "ec_pubkey_combine: result is not the canonical encoding of the sum")
    pk = lib.pubkey_from_point(ec.neg(Q))
    env.require(d.secp256k1_ec_pubkey_negate(ctx, pk) == 1 and api.ser(pk) == q65 and lib.pubkey_serialize(pk) == q33, "ec_pubkey_negate: result is not the canonical encoding")
    api.quiet("backward construction")
    return True, classes


TESTS = [
    Test("history", history_case, run_history, quick=3000, thorough=90000, max_workers=8,
         must_cover=["fail:tweak_add:result0", "fail:tweak_add:t>=n", "fail:tweak_mul:zero", "fail:tweak_mul:t>=n", "fail:xonly_tweak_add:result0",
                     "fail:xonly_tweak_add:t>=n", "fail:keypair_xonly_tweak_add:result0", "fail:keypair_xonly_tweak_add:t>=n", "fail:keypair_result0_odd",
                     "xonly_ok_par1", "keypair_ok_par1", "keypair_ok_par0", "invalid_key:zero", "invalid_key:n", "check:flip_parity:0",
                     "check:other_tweak:0", "result_pm1", "op:negate", "op:to_xonly", "op:keypair_create", "taptweak", "alias:tweak_is_key", "alias:inplace", "alias:check_x_is_tweak",
                     "alias:tweak_is_seckey_buffer"]),
    # alternative limb configurations (10x26 field / 8x32 scalar, int128 struct) in the quick tier as well
    Test("history_cfg", history_case, run_history, quick=700, thorough=6000, max_workers=3,
         cfgs={"quick": ["int64", "struct"], "thorough": ["int64", "struct", "noasm"]},
         must_cover=["fail:tweak_add:result0", "fail:xonly_tweak_add:result0", "op:negate", "taptweak", "alias:tweak_is_key"]),
    Test("combine", combine_case, run_combine, quick=1500, thorough=50000, max_workers=4,
         must_cover=["sum_infinity", "sum_ok", "prefix_infinity", "duplicate", "cancelling_pair", "n:41-200", "n:1", "secret_sum_checked", "aliased_pointer",
                     "equal_in_distinct_objects"]),
    Test("sort", sort_case, run_sort, quick=1500, thorough=50000, max_workers=4,
         must_cover=["n:41-200", "n:0", "n:1", "duplicate", "aliased_pointer", "equal_in_distinct_objects", "P_and_minus_P", "cmp:0", "cmp:1", "cmp:-1",
                     "cmp:same_x", "cmp:shared_prefix", "reordered"]),
    Test("backward", backward_case, run_backward, quick=600, thorough=20000, max_workers=3,
         must_cover=["check:noncanonical_x_plus_p", "tiny:x", "tiny:y"]),
]
