#!/bin/sh
# offline setup: validate the reference model against vectors that do not come from the library and warm the build cache
cd "$(dirname "$0")" || exit 1
export PYTHONPATH="$PWD"
python3-vt -m pyref.selftest || exit 1
test -f /usr/include/x86_64-linux-gnu/gmp.h || { echo "gmp.h missing"; exit 1; }
python3-vt -m vf.build prod vsan >/dev/null || exit 1
echo setup ok
